//go:build c19

package main

// C19, clause "every post … is announced to all connected users" UNDER CONCURRENCY.
//
// HandleTranOldPostNews announces with cc.SendAll: ClientMgr.List() once (the audience), then a walk handing one
// TranNewMsg per entry to the outbox.  Other goroutines run between two steps of the walk.
//
//   announce-forced      a forced schedule on the real server with the real MemClientMgr: the harness owns the outbox
//                        consumer (the channel is unbuffered), takes the first j announcements of a post and then stops
//                        receiving – the poster's SendAll is now blocked in the middle of its walk.  In that window: users
//                        disconnect (real Disconnect), connect, another user fetches the user list, a second user posts.
//                        Then the consumer resumes.  Judge: every user connected throughout a post's handling received
//                        that post exactly once; nobody twice.  The observed order of announcements is compared with
//                        Lean `Announce.run` on the same event sequence (`c19announce`).
//   announce-concurrent  free running: 8..24 (thorough: ..48) users post 3..8 times each at the same moment through the
//                        real handlers, real MemClientMgr and real processOutbox, while other users fetch the user list
//                        and short-lived users come and go; every stable user's connection is parsed afterwards: each
//                        acknowledged post exactly once.

import (
	"bytes"
	"encoding/binary"
	"fmt"
	"sort"
	"strconv"
	"strings"
	"sync"
	"sync/atomic"
	"time"

	"github.com/jhalter/mobius/hotline"
)

// c19CM wraps the server's ClientManager interface field around the real MemClientMgr: it only counts List() calls
// (so the harness knows that a SendAll has taken its snapshot); every result is the real one, passed through untouched.
type c19CM struct {
	hotline.ClientManager
	lists atomic.Int64
}

func (m *c19CM) List() []*hotline.ClientConn {
	l := m.ClientManager.List()
	m.lists.Add(1)
	return l
}

func c19ID(cc *hotline.ClientConn) int { return int(binary.BigEndian.Uint16(cc.ID[:])) }

func c19PostVia(ts *TS, cc *hotline.ClientConn, body string) bool {
	res := c19Handler(ts, hotline.TranOldPostNews)(cc, &hotline.Transaction{Type: hotline.TranOldPostNews, ID: [4]byte{0, 0, 0, 9},
		Fields: []hotline.Field{hotline.NewField(hotline.FieldData, []byte(body))}})
	return len(res) == 1 && res[0].IsReply == 1 && res[0].ErrorCode == [4]byte{}
}

type c19Ann struct{ client, post int }

// c19Guard runs f; a panic of the code under test inside a harness goroutine is recorded (first one wins) instead of
// taking the process down, and reported by the case as a violation with a replay.
type c19Panics struct {
	mu  sync.Mutex
	msg string
}

func (p *c19Panics) guard(what string, f func()) {
	defer func() {
		if r := recover(); r != nil {
			p.mu.Lock()
			if p.msg == "" {
				p.msg = fmt.Sprintf("%s: %v", what, r)
			}
			p.mu.Unlock()
		}
	}()
	f()
}

func (p *c19Panics) report(c *Case) bool {
	p.mu.Lock()
	defer p.mu.Unlock()
	if p.msg == "" {
		return false
	}
	c.Note("panic", p.msg)
	c.Violation("announce-panics", "the server code panicked while a post was being announced under concurrency: "+p.msg)
	return true
}

func init() {
	c19ExtraFamilies = append(c19ExtraFamilies, func(x *Ctx) {
		thor := x.Tier == "thorough"
		x.rule += " announce-forced: 3-8 users registered in the real MemClientMgr; a post's SendAll is blocked after its 1st..(n-1)th announcement (the harness owns the unbuffered outbox); in that window 1-4 events drawn from {a user disconnects (real Disconnect), a user connects, a user fetches the user list, a second user posts}; then the walk(s) resume; non-trivial = at least one event happened in the window; distinct = (users, poster, hold point, events). " +
			"announce-concurrent: 8-24 (thorough: up to 48) users post 3-8 times each at once through the real handlers with the real MemClientMgr and processOutbox, 0-3 users loop user-list requests and 0-2 short-lived users connect and disconnect meanwhile; non-trivial = at least two posts overlapped; distinct = (users, posts per user, noise)."
		x.assume = append(x.assume, "announcement: a user counts as connected for a post when it is in the client table from before the post's handler starts until after it returns; delivery = the transaction handed to the outbox (forced) resp. written to the user's connection (concurrent)")
		x.Add(&Family{Name: "announce-forced", Quick: 400, Thor: 6000, Run: c19AnnounceForced})
		x.Add(&Family{Name: "announce-concurrent", Quick: 60, Thor: 500, Run: func(c *Case) { c19AnnounceConcurrent(c, thor) }})
	})
}

// ---------------------------------------------------------------- announce-forced

func c19AnnounceForced(c *Case) {
	r := c.R
	ts, err := newTS(TSOpt{NoOutbox: true, Board: string(c19Text(r, r.Pick(0, 40, 900), false))})
	if err != nil {
		panic(err)
	}
	defer ts.Close()
	cm := &c19CM{ClientManager: ts.Srv.ClientMgr}
	ts.Srv.ClientMgr = cm
	ob := ts.Srv.VerifOutbox()

	n := 3 + r.Intn(6)
	var clients []*hotline.ClientConn
	for i := 0; i < n; i++ {
		cc, _ := ts.DirectClient("admin", []byte(fmt.Sprintf("u%d", i)), fmt.Sprintf("10.19.0.%d:%d", i+1, 2000+i))
		clients = append(clients, cc)
	}
	var ids []string
	for _, cc := range clients {
		ids = append(ids, strconv.Itoa(c19ID(cc)))
	}
	tokens := map[int]string{1: "ANN1-" + c20lessToken(r, 6), 2: "ANN2-" + c20lessToken(r, 6)}
	postOf := func(t hotline.Transaction) int {
		if t.Type != hotline.TranNewMsg || len(t.Fields) == 0 {
			return 0
		}
		for k, tok := range tokens {
			if bytes.Contains(t.Fields[0].Data, []byte(tok)) {
				return k
			}
		}
		return -1
	}

	var wg sync.WaitGroup
	var pans c19Panics
	var acked [3]atomic.Bool
	var log []c19Ann // announcements in the order the outbox handed them over
	var evs []string // the schedule as model events
	alive := map[int]bool{}
	for _, cc := range clients {
		alive[c19ID(cc)] = true
	}
	// connected[k]: users in the table when post k started and still there when it is over (filled below)
	startSet := map[int]map[int]bool{}
	gone := map[int][]int{} // users that disconnected after post k had started
	snapshotAlive := func() map[int]bool {
		m := map[int]bool{}
		for id, a := range alive {
			if a {
				m[id] = true
			}
		}
		return m
	}
	recv := func(d time.Duration) (hotline.Transaction, bool) {
		select {
		case t := <-ob:
			return t, true
		case <-time.After(d):
			return hotline.Transaction{}, false
		}
	}
	startPost := func(k int, cc *hotline.ClientConn) bool {
		before := cm.lists.Load()
		startSet[k] = snapshotAlive()
		wg.Add(1)
		go func() {
			defer wg.Done()
			pans.guard("post", func() {
				if c19PostVia(ts, cc, tokens[k]) {
					acked[k].Store(true)
				}
			})
		}()
		// its SendAll has taken the snapshot when List() has been called (PostMessageBoard does not call it)
		if !waitFor(20*time.Second, func() bool { return cm.lists.Load() > before }) {
			return false
		}
		evs = append(evs, fmt.Sprintf("s:%d", k))
		return true
	}

	pi := r.Intn(n)
	poster := clients[pi]
	hold := 1 + r.Intn(n-1)
	c.Note("users", n)
	c.Note("poster", c19ID(poster))
	c.Note("hold_after_announcements", hold)
	if !startPost(1, poster) {
		// the handler never asked for the client list: nothing is announced (judged below: nobody received the post)
		c.Dist("announce-forced/no-list-call")
	}
	for i := 0; i < hold; i++ {
		t, ok := recv(20 * time.Second)
		if !ok {
			break
		}
		if k := postOf(t); k > 0 {
			log = append(log, c19Ann{int(binary.BigEndian.Uint16(t.ClientID[:])), k})
			evs = append(evs, fmt.Sprintf("v:%d", k))
		}
	}
	// the window: the walk of post 1 is blocked on the outbox
	var script []string
	post2 := false
	nev := 1 + r.Intn(4)
	for e := 0; e < nev; e++ {
		switch r.Pick(0, 0, 0, 1, 2, 2, 3) {
		case 0: // a user other than the posters disconnects
			var cand []*hotline.ClientConn
			for _, cc := range clients {
				if alive[c19ID(cc)] && cc != poster {
					cand = append(cand, cc)
				}
			}
			if len(cand) < 2 {
				continue
			}
			// biased to users that sort BEFORE the part of the audience not yet addressed
			x := cand[r.Intn(len(cand))]
			if r.Chance(60) {
				x = cand[r.Intn((len(cand)+1)/2)]
			}
			before := cm.lists.Load()
			wg.Add(1)
			go func() { defer wg.Done(); pans.guard("disconnect", x.Disconnect) }()
			id := x.ID
			if !waitFor(20*time.Second, func() bool { return ts.Srv.ClientMgr.Get(id) == nil && cm.lists.Load() > before }) {
				c.Dist("announce-forced/disconnect-incomplete")
			}
			alive[c19ID(x)] = false
			for k := range startSet {
				gone[k] = append(gone[k], c19ID(x))
			}
			evs = append(evs, fmt.Sprintf("d:%d", c19ID(x)), "l") // Delete, then NotifyOthers' List()
			script = append(script, fmt.Sprintf("disconnect(%d)", c19ID(x)))
		case 1: // a user connects
			cc, _ := ts.DirectClient("admin", []byte("late"), fmt.Sprintf("10.19.1.%d:3000", e+1))
			clients = append(clients, cc)
			alive[c19ID(cc)] = true
			evs = append(evs, fmt.Sprintf("c:%d", c19ID(cc)))
			script = append(script, fmt.Sprintf("connect(%d)", c19ID(cc)))
		case 2: // a user fetches the user list
			for _, cc := range clients {
				if alive[c19ID(cc)] {
					pans.guard("user-list", func() {
						c19Handler(ts, hotline.TranGetUserNameList)(cc, &hotline.Transaction{Type: hotline.TranGetUserNameList, ID: [4]byte{0, 0, 0, 5}})
					})
					break
				}
			}
			evs = append(evs, "l")
			script = append(script, "user-list")
		case 3: // a second user posts
			if post2 {
				continue
			}
			var cand []*hotline.ClientConn
			for _, cc := range clients {
				if alive[c19ID(cc)] && cc != poster {
					cand = append(cand, cc)
				}
			}
			if len(cand) == 0 {
				continue
			}
			post2 = true
			q := cand[r.Intn(len(cand))]
			if startPost(2, q) {
				script = append(script, fmt.Sprintf("post2-by(%d)", c19ID(q)))
			}
		}
	}
	c.Note("window", script)
	// resume: receive until every sender has returned (the channel is unbuffered: nothing is in flight afterwards)
	allDone := make(chan struct{})
	go func() { wg.Wait(); close(allDone) }()
	deadline := time.After(90 * time.Second)
loop:
	for {
		select {
		case t := <-ob:
			if k := postOf(t); k > 0 {
				log = append(log, c19Ann{int(binary.BigEndian.Uint16(t.ClientID[:])), k})
				evs = append(evs, fmt.Sprintf("v:%d", k))
			}
		case <-allDone:
			break loop
		case <-deadline:
			c.Dist("announce-forced/senders-still-blocked")
			return // slowness is not judged
		}
	}
	var obs []string
	for _, a := range log {
		obs = append(obs, fmt.Sprintf("%d:%d", a.client, a.post))
	}
	c.Note("schedule", strings.Join(evs, " "))
	c.Note("announcements", strings.Join(obs, " "))
	if pans.report(c) {
		return
	}
	// direct judge
	for k := 1; k <= 2; k++ {
		if startSet[k] == nil || !acked[k].Load() {
			continue
		}
		per := map[int]int{}
		for _, a := range log {
			if a.post == k {
				per[a.client]++
			}
		}
		left := map[int]bool{}
		for _, id := range gone[k] {
			left[id] = true
		}
		var idsK []int
		for id := range startSet[k] {
			idsK = append(idsK, id)
		}
		sort.Ints(idsK)
		for _, id := range idsK {
			if left[id] {
				continue
			}
			if per[id] == 0 {
				c.Note("post", k)
				c.Note("user", id)
				c.Violation("post-not-announced-to-connected-user", fmt.Sprintf("user %d was connected from before post %d was made until after it was acknowledged, and never received its new-message announcement (102)", id, k))
				return
			}
		}
		for id, cnt := range per {
			if cnt > 1 {
				c.Note("post", k)
				c.Note("user", id)
				c.Note("times", cnt)
				c.Violation("post-announced-twice", fmt.Sprintf("user %d received the announcement of post %d %d times", id, k, cnt))
				return
			}
		}
	}
	// the model on the same schedule: same announcements in the same order
	want := c.AskS("c19announce", append([]string{strings.Join(ids, ",")}, evs...)...)
	if i := strings.Index(want, " | "); i >= 0 {
		want = want[:i]
	}
	c.Corr("announce-schedule", strings.Join(obs, " "), want, true)
	if len(script) > 0 {
		c.Nontrivial(fmt.Sprintf("forced|%d|%d|%d|%s", n, pi, hold, strings.Join(script, ",")))
	}
	c.Dist(fmt.Sprintf("announce-forced/events=%d", len(script)))
	c.Sample(map[string]any{"family": "announce-forced", "users": n, "hold": hold, "window": strings.Join(script, ","), "announcements": len(log)})
}

func c20lessToken(r *RNG, n int) string {
	const al = "abcdefghijklmnopqrstuvwxyz0123456789"
	b := make([]byte, n)
	for i := range b {
		b[i] = al[r.Intn(len(al))]
	}
	return string(b)
}

// ---------------------------------------------------------------- announce-concurrent

func c19AnnounceConcurrent(c *Case, thor bool) {
	r := c.R
	ts, err := newTS(TSOpt{Board: string(c19Text(r, r.Pick(0, 40, 900), false))})
	if err != nil {
		panic(err)
	}
	defer ts.Close()
	k := 8 + r.Intn(17)
	if thor && r.Chance(40) {
		k = 24 + r.Intn(25)
	}
	m := 3 + r.Intn(6)
	noise := r.Intn(4)
	transients := r.Intn(3)
	type user struct {
		cc   *hotline.ClientConn
		conn *nopConn
	}
	var users []user
	for i := 0; i < k; i++ {
		cc, nc := ts.DirectClient("admin", []byte(fmt.Sprintf("u%d", i)), fmt.Sprintf("10.19.2.%d:%d", i+1, 2000+i))
		users = append(users, user{cc, nc})
	}
	var wg sync.WaitGroup
	var pans c19Panics
	start := make(chan struct{})
	var stop atomic.Bool
	tokens := make([][]string, k)
	ackedAt := make([][]bool, k)
	var inv, resp []int64
	var mu sync.Mutex
	for i := range users {
		tokens[i] = make([]string, m)
		ackedAt[i] = make([]bool, m)
		for j := 0; j < m; j++ {
			tokens[i][j] = fmt.Sprintf("P%d-%d-%s;", i, j, c20lessToken(r, 4))
		}
		wg.Add(1)
		go func(i int) {
			defer wg.Done()
			<-start
			for j := 0; j < m; j++ {
				a := c19Tick.Add(1)
				ok := false
				pans.guard("post", func() { ok = c19PostVia(ts, users[i].cc, tokens[i][j]) })
				b := c19Tick.Add(1)
				ackedAt[i][j] = ok
				mu.Lock()
				inv = append(inv, a)
				resp = append(resp, b)
				mu.Unlock()
			}
		}(i)
	}
	var nwg sync.WaitGroup
	for i := 0; i < noise; i++ {
		nwg.Add(1)
		go func(i int) {
			defer nwg.Done()
			<-start
			for !stop.Load() {
				pans.guard("user-list", func() {
					c19Handler(ts, hotline.TranGetUserNameList)(users[i%k].cc, &hotline.Transaction{Type: hotline.TranGetUserNameList, ID: [4]byte{0, 0, 0, 5}})
				})
				time.Sleep(50 * time.Microsecond)
			}
		}(i)
	}
	for i := 0; i < transients; i++ {
		nwg.Add(1)
		go func(i int) {
			defer nwg.Done()
			<-start
			for n := 0; !stop.Load() && n < 200; n++ {
				pans.guard("connect-disconnect", func() {
					cc, _ := ts.DirectClient("admin", []byte("t"), fmt.Sprintf("10.19.3.%d:%d", i+1, 4000+n))
					time.Sleep(100 * time.Microsecond)
					cc.Disconnect()
				})
			}
		}(i)
	}
	close(start)
	wg.Wait()
	stop.Store(true)
	nwg.Wait()
	if pans.report(c) {
		return
	}
	total := 0
	for i := range users {
		for j := 0; j < m; j++ {
			if ackedAt[i][j] {
				total++
			}
		}
	}
	count := func(u user) (map[string]int, bool) {
		u.conn.mu.Lock()
		b := append([]byte{}, u.conn.wrote...)
		u.conn.mu.Unlock()
		trans, _, err := splitTransactions(b)
		per := map[string]int{}
		for _, t := range trans {
			if t.Type == hotline.TranNewMsg && len(t.Fields) > 0 {
				d := t.Fields[0].Data
				if i := bytes.Index(d, []byte("P")); i >= 0 {
					// the body token sits between the header line and the delimiter
					for _, f := range bytes.FieldsFunc(d, func(r rune) bool { return r == '\r' || r == ' ' }) {
						if len(f) > 0 && f[0] == 'P' && f[len(f)-1] == ';' {
							per[string(f)]++
						}
					}
				}
			}
		}
		return per, err == nil
	}
	// processOutbox hands every transaction to a goroutine of its own: wait (event driven, generously) for the counts
	complete := func() bool {
		for _, u := range users {
			per, _ := count(u)
			n := 0
			for _, v := range per {
				n += v
			}
			if n < total {
				return false
			}
		}
		return true
	}
	if !waitFor(c19AnnounceWait()*3, complete) {
		c19AnnounceFailed.Store(true)
	}
	time.Sleep(3 * time.Millisecond)
	for ui, u := range users {
		per, wellFormed := count(u)
		if !wellFormed {
			c.Note("user", c19ID(u.cc))
			c.Violation("notification-malformed", "the bytes written to a user's connection do not frame as transactions")
			return
		}
		for i := range users {
			for j := 0; j < m; j++ {
				if !ackedAt[i][j] {
					continue
				}
				switch n := per[tokens[i][j]]; {
				case n == 0:
					c.Note("user", c19ID(u.cc))
					c.Note("user_index", ui)
					c.Note("post", tokens[i][j])
					c.Note("users", k)
					c.Note("posts_per_user", m)
					c.Violation("post-not-announced-to-connected-user", fmt.Sprintf("with %d users posting %d times each at the same moment, a user connected all along never received the announcement (102) of an acknowledged post", k, m))
					return
				case n > 1:
					c.Note("user", c19ID(u.cc))
					c.Note("post", tokens[i][j])
					c.Note("times", n)
					c.Violation("post-announced-twice", fmt.Sprintf("a user received the announcement of one post %d times", n))
					return
				}
			}
		}
	}
	overlap := false
	for i := range inv {
		for j := range inv {
			if i != j && inv[i] < resp[j] && inv[j] < resp[i] {
				overlap = true
			}
		}
		if overlap {
			break
		}
	}
	if overlap {
		c.Nontrivial(fmt.Sprintf("concurrent|%d|%d|%d|%d", k, m, noise, transients))
	}
	c.Dist(fmt.Sprintf("announce-concurrent/users=%d..", k/8*8))
	c.Sample(map[string]any{"family": "announce-concurrent", "users": k, "posts_per_user": m, "user_list_loops": noise, "short_lived_users": transients, "announcements_expected": total * k})
}
