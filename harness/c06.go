//go:build c06

package main

// C06 — no privilege amplification; protected users cannot be kicked.
//
// Direct mode: the real handlers (HandleNewUser, HandleUpdateUser, HandleDisconnectUser) run against a real
// account directory / ban file.  After every creation request the account that exists afterwards — in memory
// (AccountManager.Get) AND on disk (Users/<login>.yaml parsed by the yaml library and by a fresh
// NewYAMLAccountManager) — is judged by the property's own predicate (created ⊆ creator, byte arithmetic
// written here) and compared with the Lean model of the handler.  Disconnect cases run concurrently and
// are inspected after the handler's delayed goroutine (1 s) has had time to fire.

import (
	"bytes"
	"fmt"
	"os"
	"path/filepath"
	"strings"
	"sync"
	"sync/atomic"
	"time"

	"github.com/jhalter/mobius/hotline"
	"github.com/jhalter/mobius/internal/mobius"
)

const msgTooMuch = "Cannot create account with more access than yourself."
const msgNoCreate = "You are not allowed to create new accounts."

// classify the requester's reply of a creation request
func createReplyClass(res []hotline.Transaction, cc *hotline.ClientConn) string {
	rep, _ := requesterReplies(res, cc)
	if len(rep) != 1 {
		return fmt.Sprintf("replies=%d", len(rep))
	}
	if !isErrReply(rep[0]) {
		return "ok"
	}
	switch m := errText(rep[0]); {
	case m == msgTooMuch:
		return "toomuch"
	case m == msgNoCreate:
		return "denied"
	case strings.Contains(m, "already an account"):
		return "exists"
	default:
		return "err:" + m
	}
}

// judgeCreated inspects the account `login` after a creation request by a creator holding `creator`.
// field = bytes of the access field as sent.  Returns the canonical observation for the model comparison.
func judgeCreated(c *Case, ts *TS, path, login string, creator hotline.AccessBitmap, field []byte, class string) string {
	var copied [8]byte
	copy(copied[:], field)
	mem := ts.Acct.Get(login)
	disk, derr := readAccountFile(ts.Users, login)
	_, statErr := os.Stat(filepath.Join(ts.Users, login+".yaml"))
	c.Note("path", path)
	c.Note("creator", bmHex(creator))
	c.Note("creator_bits", bmBits(creator))
	c.Note("access_field", hx(field))
	c.Note("requested_bits", bmBits(copied))
	c.Note("reply", class)
	// the property: whatever exists afterwards holds no privilege the creator lacks
	if mem != nil && !subsetOf(mem.Access, creator) {
		c.Note("created_memory", bmHex(mem.Access))
		c.Violation("amplification-memory", fmt.Sprintf("%s: the account in memory holds privileges %v, its creator only %v", path, bmBits(mem.Access), bmBits(creator)))
	}
	if statErr == nil {
		if derr != nil {
			c.Note("err", derr.Error())
			c.Violation("created-file-unreadable", path+": the created account file cannot be parsed")
		} else if !subsetOf(disk.Access, creator) {
			c.Note("created_disk", bmHex(disk.Access))
			c.Violation("amplification-disk", fmt.Sprintf("%s: the account file holds privileges %v, its creator only %v", path, bmBits(disk.Access), bmBits(creator)))
		}
	}
	// memory and disk agree (disk stores the defined privileges)
	if (mem != nil) != (statErr == nil) {
		c.Violation("created-mem-disk-differ", path+": the account exists in only one of memory / disk")
	} else if mem != nil && derr == nil && hotline.AccessBitmap(maskDefined(mem.Access)) != disk.Access {
		c.Note("created_memory", bmHex(mem.Access))
		c.Note("created_disk", bmHex(disk.Access))
		c.Violation("created-mem-disk-differ", path+": the created account has different privileges in memory and on disk")
	}
	// an error reply must not leave an account behind
	if class != "ok" && (mem != nil || statErr == nil) {
		c.Violation("refused-but-created", path+": the request was refused ("+class+") but the account exists")
	}
	// what was granted is what was asked for (as copied into 8 bytes)
	if class == "ok" && mem != nil && mem.Access != hotline.AccessBitmap(copied) {
		c.Note("created_memory", bmHex(mem.Access))
		c.Violation("created-not-requested", path+": the created account's privileges differ from the requested ones")
	}
	if class == "ok" && mem != nil {
		return "created " + bmHex(mem.Access)
	}
	if class == "ok" {
		return "ok-but-missing"
	}
	return class
}

// newCreateServer: a server whose only account is the creator's.
func newCreateServer(c *Case, creator hotline.AccessBitmap) *TS {
	ts, err := newTS(TSOpt{Direct: true, Accounts: []AcctSpec{{Login: "creator", Name: "creator", Password: "", Access: hotline.AccessBitmap(maskDefined(creator))}}})
	if err != nil {
		c.Note("err", err.Error())
		c.Disagree("fixture", "test server could not be built")
		return nil
	}
	return ts
}

// runCreate performs one creation request (for a login that does not exist yet) and judges it.
// which: "new" (350) or "editor" (349).  ts == nil: on a fresh server.
func runCreate(c *Case, ts *TS, which string, creator hotline.AccessBitmap, field []byte, deep bool) {
	if ts == nil {
		if ts = newCreateServer(c, creator); ts == nil {
			return
		}
		defer ts.Close()
	}
	cc, _ := directClientWith(ts, "creator", "10.0.0.1:1000", creator)
	login := "fresh-" + which
	var t hotline.Transaction
	var model string
	if which == "new" {
		t = newUserTran(7, login, "Fresh User", "pw", field)
		model = c.AskS("newuser", bmHex(creator), "0", hx(field), "0")
	} else {
		t = mkTran(hotline.TranUpdateUser, 7, subCreateOrModify(login, "Fresh User", []byte("pw"), field))
		model = c.AskS("updcreate", bmHex(creator), hx(field), "0")
	}
	res, queued, pan := ts.Call(cc, t)
	if pan != nil {
		c.Note("panic", fmt.Sprint(pan))
		c.Violation("create-panic", which+": account creation panicked")
		return
	}
	if len(queued) != 0 {
		c.Violation("create-reaches-others", which+": an account creation request sent transactions through the outbox")
	}
	class := createReplyClass(res, cc)
	obs := judgeCreated(c, ts, which, login, creator, field, class)
	c.Corr("create-"+which, obs, model, false)
	if deep && strings.HasPrefix(obs, "created") {
		// restart: a fresh account manager over the same directory
		am, err := loadAccountsDir(ts.Users)
		if err != nil {
			c.Note("err", err.Error())
			c.Violation("reload-failed", which+": the account directory cannot be loaded after the creation")
		} else if a := am.Get(login); a == nil {
			c.Violation("created-lost-on-restart", which+": the created account is missing after a restart")
		} else if !subsetOf(a.Access, creator) {
			c.Note("created_reloaded", bmHex(a.Access))
			c.Violation("amplification-disk", fmt.Sprintf("%s: after a restart the account holds privileges %v, its creator only %v", which, bmBits(a.Access), bmBits(creator)))
		}
	}
	var copied [8]byte
	copy(copied[:], field)
	c.Dist("create/" + which + "/" + strings.SplitN(obs, " ", 2)[0])
	c.Nontrivial(which + ":" + bmHex(creator) + ":" + hx(field))
}

// ---------------------------------------------------------------- disconnect

type discCase struct {
	requester hotline.AccessBitmap
	target    hotline.AccessBitmap
	opt       string // absent | temporary | permanent | other
	optBytes  []byte
}

type discObs struct {
	dc        discCase
	ts        *TS
	tgConn    *nopConn
	tg        *hotline.ClientConn
	rq        *hotline.ClientConn
	res       []hotline.Transaction
	queued    []hotline.Transaction
	pan       any
	cfgBefore []string
	lateUntil time.Time // until when an expected but late disconnect is waited for (shared by the batch)
}

const targetIP = "10.7.7.7"

func startDisconnect(dc discCase) (*discObs, error) {
	ts, err := newTS(TSOpt{Direct: true, Accounts: []AcctSpec{
		{Login: "req", Name: "req", Password: "", Access: hotline.AccessBitmap(maskDefined(dc.requester))},
		{Login: "tgt", Name: "tgt", Password: "", Access: hotline.AccessBitmap(maskDefined(dc.target))},
	}})
	if err != nil {
		return nil, err
	}
	o := &discObs{dc: dc, ts: ts}
	o.rq, _ = directClientWith(ts, "req", "10.0.0.1:1000", dc.requester)
	o.tg, o.tgConn = directClientWith(ts, "tgt", targetIP+":5555", dc.target)
	ts.DirectClient("req", []byte("bystander"), "10.0.0.9:9")
	o.cfgBefore = snapshot(ts.Cfg)
	fs := []hotline.Field{fld(hotline.FieldUserID, o.tg.ID[:])}
	if dc.optBytes != nil {
		fs = append(fs, fld(hotline.FieldOptions, dc.optBytes))
	}
	o.res, o.queued, o.pan = ts.Call(o.rq, mkTran(hotline.TranDisconnectUser, 9, fs...))
	return o, nil
}

// finish is called ≥ 1.2 s after startDisconnect.
func (o *discObs) finish(c *Case) {
	defer o.ts.Close()
	dc := o.dc
	c.Note("requester", bmHex(dc.requester))
	c.Note("target", bmHex(dc.target))
	c.Note("target_bits", bmBits(dc.target))
	c.Note("option", dc.opt+" "+hx(dc.optBytes))
	if o.pan != nil {
		c.Note("panic", fmt.Sprint(o.pan))
		c.Violation("disconnect-panic", "the disconnect handler panicked")
		return
	}
	// the delayed disconnect fires 1 s after the call; on a loaded machine give an expected one more time
	// (an unexpected one is looked for after the fixed 1.4 s only: lateness can hide it, never invent it)
	// (ONE deadline for all sub-cases of a family case — `lateUntil`, set when the batch was started: on a tree where
	// the expected disconnects never happen, waiting 30 s for each of ~150 sub-cases in turn made the run take hours)
	if bitOf(dc.requester, 22) && !bitOf(dc.target, 23) && !o.tgConn.IsClosed() {
		waitFor(time.Until(o.lateUntil), o.tgConn.IsClosed)
	}
	late := o.ts.TakeOutbox()
	closed := o.tgConn.IsClosed()
	stillListed := o.ts.Srv.ClientMgr.Get(o.tg.ID) != nil
	memBanned, memUntil := o.ts.Bans.IsBanned(targetIP)
	diskBanned, diskPerm := false, false
	if bf, err := mobius.NewBanFile(filepath.Join(o.ts.Cfg, "Banlist.yaml")); err == nil {
		b, until := bf.IsBanned(targetIP)
		diskBanned, diskPerm = b, b && until == nil
	} else {
		c.Note("err", err.Error())
		c.Violation("banfile-unreadable", "the ban file cannot be loaded after a disconnect request")
	}
	rep, others := requesterReplies(o.res, o.rq)
	notice := false
	for _, t := range append(append([]hotline.Transaction{}, others...), o.queued...) {
		if t.ClientID == o.tg.ID && t.Type == hotline.TranServerMsg {
			notice = true
		}
	}
	protected := bitOf(dc.target, 23)
	mayDisconnect := bitOf(dc.requester, 22)
	c.Note("closed", closed)
	c.Note("banned_memory", memBanned)
	c.Note("banned_disk", diskBanned)
	// the property: a protected user is never disconnected or banned by another user's disconnect request
	if protected {
		if closed || !stillListed {
			c.Violation("protected-disconnected", "a user whose account is marked cannot-be-disconnected was disconnected (option "+dc.opt+")")
		}
		if memBanned || diskBanned {
			c.Violation("protected-banned", "the address of a user whose account is marked cannot-be-disconnected was banned (option "+dc.opt+")")
		}
		if notice {
			c.Violation("protected-notified", "a protected user was sent a ban notice")
		}
		if mayDisconnect && (len(rep) != 1 || !isErrReply(rep[0]) || errText(rep[0]) != "tgt is not allowed to be disconnected.") {
			c.Note("reply", fmt.Sprint(len(rep)))
			c.Violation("protected-reply", "a disconnect request against a protected user is not answered with the error reply")
		}
		if !equalStrings(o.cfgBefore, snapshot(o.ts.Cfg)) {
			c.Violation("protected-state-changed", "a disconnect request against a protected user changed persistent state")
		}
		if len(late) != 0 {
			c.Violation("protected-late-traffic", "a disconnect request against a protected user produced outbox traffic afterwards")
		}
	}
	// correspondence with the model
	var obs string
	switch {
	case len(rep) == 1 && isErrReply(rep[0]) && errText(rep[0]) == "You are not allowed to disconnect users.":
		obs = "denied"
		if closed || memBanned || diskBanned || notice {
			c.Violation("denied-disconnect-effect", "a disconnect request refused for lack of privilege still disconnected / banned the target")
		}
	case len(rep) == 1 && isErrReply(rep[0]):
		obs = fmt.Sprintf("protected bans=%s scheduled=%v notice=%v", banStr(memBanned, memUntil == nil), closed, notice)
	case len(rep) == 1:
		obs = fmt.Sprintf("reply bans=%s scheduled=%v notice=%v", banStr(memBanned, memUntil == nil), closed, notice)
	default:
		obs = fmt.Sprintf("replies=%d", len(rep))
	}
	if memBanned != diskBanned || (memBanned && (memUntil == nil) != diskPerm) {
		c.Violation("ban-mem-disk-differ", "ban list differs between memory and disk after a disconnect request")
	}
	c.Corr("disconnect", obs, c.AskS("disconnect", bmHex(dc.requester), bmHex(dc.target), dc.opt), false)
	c.Dist("disconnect/" + dc.opt + "/" + strings.SplitN(obs, " ", 2)[0])
	c.Nontrivial("disc:" + bmHex(dc.requester) + ":" + bmHex(dc.target) + ":" + hx(dc.optBytes))
}

func banStr(banned, perm bool) string {
	switch {
	case !banned:
		return "-"
	case perm:
		return "permanent"
	default:
		return "temporary"
	}
}

func equalStrings(a, b []string) bool {
	if len(a) != len(b) {
		return false
	}
	for i := range a {
		if a[i] != b[i] {
			return false
		}
	}
	return true
}

// gateAM wraps the account store: every lookup of `login` after the first (the one Authenticate makes) parks until
// the harness releases it, so that requests can be handled inside the login.
type gateAM struct {
	inner    hotline.AccountManager
	login    string
	mu       sync.Mutex
	n        int
	hit      chan int
	release  chan struct{}
	disabled atomic.Bool
}

func (g *gateAM) Get(login string) *hotline.Account {
	if login == g.login && !g.disabled.Load() {
		g.mu.Lock()
		g.n++
		n := g.n
		g.mu.Unlock()
		if n >= 2 {
			select {
			case g.hit <- n:
				select {
				case <-g.release:
				case <-time.After(60 * time.Second):
				}
			case <-time.After(60 * time.Second):
			}
		}
	}
	return g.inner.Get(login)
}
func (g *gateAM) Create(a hotline.Account) error            { return g.inner.Create(a) }
func (g *gateAM) Update(a hotline.Account, nl string) error { return g.inner.Update(a, nl) }
func (g *gateAM) List() []hotline.Account                   { return g.inner.List() }
func (g *gateAM) Delete(login string) error                 { return g.inner.Delete(login) }

var discOptions = []struct {
	name string
	b    []byte
}{
	{"absent", nil}, {"temporary", []byte{0, 1}}, {"permanent", []byte{0, 2}}, {"other", []byte{0, 3}}, {"other", []byte{0, 0}},
	{"temporary", []byte{7, 1}}, {"other", []byte{1, 0}},
}

func discTargets(r *RNG) []hotline.AccessBitmap {
	t := []hotline.AccessBitmap{{}, bmOf(23), allOnes(), hotline.AccessBitmap(withoutBit(allOnes(), 23)), bmOf(22), bmOf(22, 23), bmOf(31), bmOf(16, 17, 18, 19, 20, 21, 22), bmOf(24, 25, 26, 27, 28, 29, 30, 31)}
	for i := 0; i < 64; i++ {
		t = append(t, bmOf(i))
	}
	for i := 0; i < 12; i++ {
		b := randBitmap(r)
		if r.Bool() {
			b = hotline.AccessBitmap(withBit(b, 23))
		}
		t = append(t, b)
	}
	return t
}

func init() {
	props["C06"] = func(x *Ctx) {
		x.rule = "creation: every pair (creator = {create-user} ∪ {i}, requested = {j}) for i, j in 0..63 on BOTH creation requests (new-user 350, multi-user editor 349), two-user histories (an administrator renames / deletes / widens the creator's stored account through the real handlers while the creator stays logged in, then the creator creates an account), plus random pairs (requested = subset of creator ± extra bits, uniform, dense) with access fields of 0..12 bytes; after each request the account in memory and on disk (yaml parse + fresh NewYAMLAccountManager) is judged by created ⊆ creator and compared with the Lean model. protection acquired while logged in (set-user adds bit 23 with three sessions on the account; disconnect aimed at each session) and the login window (forced schedule: the protected user's account lookups are parked and every listed session is attacked during and right after the login, wire mode); disconnect: requester {22}, all, {22,23}, {} × 85 target bitmaps (zero, {23}, all, all-but-23, every single bit, random) × options {absent, 00 01, 00 02, 00 03, 00 00, 07 01, 01 00}; each on its own server, inspected 1.4 s later (connection closed?, ban list in memory and from a fresh NewBanFile, notice, reply, persistent snapshot). non-trivial = the handler reached the subset loop / the protected check; distinct = distinct (path, creator, field) / (requester, target, option)"
		x.assume = []string{
			"direct mode: handlers are called with a ClientConn built like handleNewConnection builds it; the requester's in-memory bitmap is set directly so that all 64 positions can be exercised",
			"bcrypt at MinCost (as the code uses)",
		}
		x.Add(&Family{Name: "create-single-bit-pairs", Quick: 4096, Thor: 4096, Run: func(c *Case) {
			idx := tableIndex(c, 4096)
			i, j := idx/64%64, idx%64
			creator := bmOf(14, i)
			field := bmOf(j)
			c.Note("i", i)
			c.Note("j", j)
			// both creation requests on one server (different logins)
			ts := newCreateServer(c, creator)
			if ts == nil {
				return
			}
			defer ts.Close()
			runCreate(c, ts, "new", creator, field[:], idx%16 == 0)
			runCreate(c, ts, "editor", creator, field[:], idx%16 == 1)
			if idx%517 == 0 {
				c.Sample(map[string]any{"family": "create-single-bit-pairs", "creator_bits": bmBits(creator), "requested_bit": j})
			}
		}})
		x.Add(&Family{Name: "create-random-pairs", Quick: 1200, Thor: 20000, Run: func(c *Case) {
			r := c.R
			creator := randBitmap(r)
			if r.Chance(85) {
				creator = hotline.AccessBitmap(withBit(creator, 14))
			}
			var req [8]byte
			switch r.Intn(5) {
			case 0: // subset of the creator
				for _, b := range bmBits(creator) {
					if r.Bool() {
						req = withBit(req, b)
					}
				}
			case 1: // subset plus exactly one privilege the creator lacks
				for _, b := range bmBits(creator) {
					if r.Bool() {
						req = withBit(req, b)
					}
				}
				for k := 0; k < 64; k++ {
					b := r.Intn(64)
					if !bitOf(creator, b) {
						req = withBit(req, b)
						break
					}
				}
			case 2: // exactly the creator
				req = creator
			case 3:
				req = randBitmap(r)
			default: // the creator with one bit dropped
				req = creator
				if bs := bmBits(creator); len(bs) > 0 {
					req = withoutBit(req, bs[r.Intn(len(bs))])
				}
			}
			field := req[:]
			switch r.Intn(8) {
			case 0: // short field
				field = req[:r.Intn(8)]
			case 1: // long field: extra bytes must be ignored
				field = append(append([]byte{}, req[:]...), r.Bytes(1+r.Intn(4))...)
				if r.Bool() {
					field[8] = 0xff
				}
			case 2: // empty
				field = []byte{}
			}
			which := "new"
			if r.Bool() {
				which = "editor"
			}
			runCreate(c, nil, which, creator, field, r.Chance(10))
			c.Dist(fmt.Sprintf("create/fieldlen-%02d", len(field)))
		}})
		x.Add(&Family{Name: "editor-multi", Quick: 300, Thor: 4000, Run: func(c *Case) {
			// several sub-requests in one editor transaction: every account that exists afterwards and did not
			// exist before must be ⊆ creator
			r := c.R
			creator := randBitmap(r)
			creator = hotline.AccessBitmap(withBit(creator, 14))
			if r.Bool() {
				creator = hotline.AccessBitmap(withBit(withBit(creator, 15), 17))
			}
			ts, err := newTS(TSOpt{Direct: true, Accounts: []AcctSpec{
				{Login: "creator", Name: "creator", Password: "", Access: hotline.AccessBitmap(maskDefined(creator))},
				{Login: "old", Name: "old", Password: "", Access: bmOf(2)},
			}})
			if err != nil {
				c.Disagree("fixture", "test server could not be built")
				return
			}
			defer ts.Close()
			cc, _ := directClientWith(ts, "creator", "10.0.0.1:1000", creator)
			n := 2 + r.Intn(3)
			var subs []hotline.Field
			var logins []string
			var desc []string
			for k := 0; k < n; k++ {
				var req [8]byte
				for _, b := range bmBits(creator) {
					if r.Bool() {
						req = withBit(req, b)
					}
				}
				if r.Chance(40) {
					req = withBit(req, r.Intn(64))
				}
				switch r.Intn(6) {
				case 0:
					subs = append(subs, subDelete("old"))
					desc = append(desc, "delete old")
				case 1:
					subs = append(subs, subCreateOrModify("old", "Old", []byte{0}, req[:]))
					desc = append(desc, "modify old "+hx(req[:]))
				default:
					l := fmt.Sprintf("n%d", k)
					logins = append(logins, l)
					subs = append(subs, subCreateOrModify(l, "N", []byte("pw"), req[:]))
					desc = append(desc, "create "+l+" "+hx(req[:]))
				}
			}
			c.Note("creator", bmHex(creator))
			c.Note("subrequests", desc)
			_, _, pan := ts.Call(cc, mkTran(hotline.TranUpdateUser, 3, subs...))
			if pan != nil {
				c.Note("panic", fmt.Sprint(pan))
				c.Violation("create-panic", "the multi-user editor panicked")
				return
			}
			am2, err := loadAccountsDir(ts.Users)
			for _, l := range logins {
				if a := ts.Acct.Get(l); a != nil && !subsetOf(a.Access, creator) {
					c.Note("login", l)
					c.Note("created_memory", bmHex(a.Access))
					c.Violation("amplification-memory", fmt.Sprintf("editor (multi): account %s holds privileges %v, its creator only %v", l, bmBits(a.Access), bmBits(creator)))
				}
				if err == nil {
					if a := am2.Get(l); a != nil && !subsetOf(a.Access, creator) {
						c.Note("login", l)
						c.Note("created_disk", bmHex(a.Access))
						c.Violation("amplification-disk", fmt.Sprintf("editor (multi): account file %s holds privileges %v, its creator only %v", l, bmBits(a.Access), bmBits(creator)))
					}
				}
			}
			c.Nontrivial(fmt.Sprint("multi:", bmHex(creator), desc))
			c.Dist(fmt.Sprintf("editor-multi/subrequests-%d", n))
		}})
		// two-user histories: an administrator renames / deletes / widens the creator's stored account through the real
		// handlers while the creator stays logged in (its ClientConn keeps the Account it got at login); then the
		// creator asks for an account.  The creator's privileges are those of its session.
		x.Add(&Family{Name: "creator-account-changed", Quick: 400, Thor: 6000, Run: func(c *Case) {
			r := c.R
			session := bmOf(14)
			if r.Bool() {
				session = hotline.AccessBitmap(withBit(randBitmap(r), 14))
			}
			if r.Chance(10) {
				session = hotline.AccessBitmap(withoutBit(session, 14))
			}
			hist := []string{"rename", "rename", "delete", "delete-user", "widen", "set-user-widen", "none"}[r.Intn(7)]
			ts, err := newTS(TSOpt{Direct: true, Accounts: []AcctSpec{
				{Login: "maker", Name: "Maker", Password: "", Access: hotline.AccessBitmap(maskDefined(session))},
				{Login: "admin", Name: "Admin", Password: "", Access: allOnes()},
			}})
			if err != nil {
				c.Disagree("fixture", "test server could not be built")
				return
			}
			defer ts.Close()
			mk, _ := directClientWith(ts, "maker", "10.0.0.1:1000", session)
			ad, _ := directClientWith(ts, "admin", "10.0.0.2:1000", allOnes())
			creatorBound := session // what a created account may hold
			var pan any
			switch hist {
			case "rename":
				_, _, pan = ts.Call(ad, mkTran(hotline.TranUpdateUser, 1, subRename("maker", "maker2", "Maker", session[:])))
				if pan == nil && (ts.Acct.Get("maker") != nil || ts.Acct.Get("maker2") == nil) {
					c.Disagree("fixture-rename", "the administrator's rename of the creator's account did not take effect")
					return
				}
			case "delete":
				_, _, pan = ts.Call(ad, mkTran(hotline.TranUpdateUser, 1, subDelete("maker")))
			case "delete-user":
				_, _, pan = ts.Call(ad, mkTran(hotline.TranDeleteUser, 1, fld(hotline.FieldUserLogin, obf("maker"))))
			case "widen":
				// the editor's modify branch changes the stored account only; live sessions keep their bitmap
				_, _, pan = ts.Call(ad, mkTran(hotline.TranUpdateUser, 1, subCreateOrModify("maker", "Maker", []byte{0}, []byte{0xff, 0xff, 0xff, 0xff, 0xff, 0xff, 0xff, 0xff})))
			case "set-user-widen":
				// set-user also updates the live session's bitmap
				_, _, pan = ts.Call(ad, mkTran(hotline.TranSetUser, 1, fld(hotline.FieldUserLogin, obf("maker")), fld(hotline.FieldUserName, []byte("Maker")),
					fld(hotline.FieldUserPassword, []byte{0}), fld(hotline.FieldUserAccess, []byte{0xff, 0xff, 0xff, 0xff, 0xff, 0xff, 0xff, 0xff})))
			}
			if pan != nil {
				c.Note("panic", fmt.Sprint(pan))
				c.Disagree("fixture-history", "the administrator's request panicked")
				return
			}
			if mk.Account != nil {
				creatorBound = mk.Account.Access // set-user refreshes the session; the others leave it alone
			}
			if a := ts.Acct.Get("maker"); a != nil {
				// a stored account under the session's login: its privileges are the creator's too
				for i := 0; i < 8; i++ {
					creatorBound[i] |= a.Access[i]
				}
			}
			sessionNow := session
			if mk.Account != nil {
				sessionNow = mk.Account.Access
			}
			// the request: subset of the session, or with extra bits the session lacks, or everything
			var req [8]byte
			switch r.Intn(4) {
			case 0:
				for _, b := range bmBits(sessionNow) {
					if r.Bool() {
						req = withBit(req, b)
					}
				}
			case 1:
				req = allOnes()
			case 2:
				req = sessionNow
				req = withBit(req, r.Intn(64))
			default:
				req = withBit(req, r.Intn(64))
			}
			which := "new"
			if r.Chance(65) {
				which = "editor"
			}
			login := "fresh-" + which
			var t hotline.Transaction
			var model string
			if which == "new" {
				t = newUserTran(7, login, "Fresh User", "pw", req[:])
				model = c.AskS("newuser", bmHex(sessionNow), "0", hx(req[:]), "0")
			} else {
				t = mkTran(hotline.TranUpdateUser, 7, subCreateOrModify(login, "Fresh User", []byte("pw"), req[:]))
				model = c.AskS("updcreate", bmHex(sessionNow), hx(req[:]), "0")
			}
			c.Note("history", hist)
			c.Note("session", bmHex(sessionNow))
			res, _, pan := ts.Call(mk, t)
			if pan != nil {
				c.Note("panic", fmt.Sprint(pan))
				c.Violation("create-panic", which+": account creation panicked after the creator's account was changed ("+hist+")")
				return
			}
			class := createReplyClass(res, mk)
			obs := judgeCreated(c, ts, which+"/after-"+hist, login, creatorBound, req[:], class)
			if hist != "widen" {
				c.Corr("create-after-"+hist, obs, model, false)
			}
			c.Dist("history/" + hist + "/" + strings.SplitN(obs, " ", 2)[0])
			c.Nontrivial(hist + ":" + which + ":" + bmHex(session) + ":" + hx(req[:]))
		}})
		// an account becomes protected while several sessions are logged in under it (administrator's set-user adds
		// cannot-be-disconnected); a disconnect request then aims at the 1st / 2nd / 3rd of those sessions
		x.Add(&Family{Name: "protected-by-set-user", Quick: 12, Thor: 48, Run: func(c *Case) {
			idx := tableIndex(c, 48)
			type scen struct {
				k       int
				opt     int
				protect bool
				ts      *TS
				conns   []*nopConn
				sess    []*hotline.ClientConn
				rq      *hotline.ClientConn
				res     []hotline.Transaction
				pan     any
				base    hotline.AccessBitmap
			}
			var scens []*scen
			for k := 0; k < 3; k++ {
				for oi := 0; oi < 3; oi++ {
					scens = append(scens, &scen{k: k, opt: oi, protect: idx%4 != 3})
				}
			}
			opts := [][]byte{nil, {0, 1}, {0, 2}}
			optNames := []string{"absent", "temporary", "permanent"}
			var wg sync.WaitGroup
			for _, sc := range scens {
				sc.base = hotline.AccessBitmap(maskDefined(randBitmap(c.R)))
				if sc.protect {
					sc.base = hotline.AccessBitmap(withoutBit(sc.base, 23))
				} else {
					sc.base = hotline.AccessBitmap(withBit(sc.base, 23))
				}
				wg.Add(1)
				go func(sc *scen) {
					defer wg.Done()
					ts, err := newTS(TSOpt{Direct: true, Accounts: []AcctSpec{
						{Login: "req", Name: "req", Password: "", Access: bmOf(22)},
						{Login: "tgt", Name: "tgt", Password: "", Access: sc.base},
						{Login: "admin", Name: "admin", Password: "", Access: allOnes()},
					}})
					if err != nil {
						return
					}
					sc.ts = ts
					for i := 0; i < 3; i++ {
						cc, nc := directClientWith(ts, "tgt", fmt.Sprintf("10.7.7.%d:5555", i+1), sc.base)
						sc.sess, sc.conns = append(sc.sess, cc), append(sc.conns, nc)
					}
					sc.rq, _ = directClientWith(ts, "req", "10.0.0.1:1000", bmOf(22))
					ad, _ := directClientWith(ts, "admin", "10.0.0.2:1000", allOnes())
					now := hotline.AccessBitmap(withBit(sc.base, 23))
					if !sc.protect {
						now = hotline.AccessBitmap(withoutBit(sc.base, 23))
					}
					_, _, sc.pan = ts.Call(ad, mkTran(hotline.TranSetUser, 1, fld(hotline.FieldUserLogin, obf("tgt")), fld(hotline.FieldUserName, []byte("tgt")),
						fld(hotline.FieldUserPassword, []byte{0}), fld(hotline.FieldUserAccess, now[:])))
					if sc.pan != nil {
						return
					}
					fs := []hotline.Field{fld(hotline.FieldUserID, sc.sess[sc.k].ID[:])}
					if opts[sc.opt] != nil {
						fs = append(fs, fld(hotline.FieldOptions, opts[sc.opt]))
					}
					sc.res, _, sc.pan = ts.Call(sc.rq, mkTran(hotline.TranDisconnectUser, 9, fs...))
				}(sc)
			}
			wg.Wait()
			time.Sleep(1400 * time.Millisecond)
			lateUntil := time.Now().Add(30 * time.Second) // one deadline for the whole batch (see discObs.lateUntil)
			for _, sc := range scens {
				if sc.ts == nil {
					c.Disagree("fixture", "test server could not be built")
					continue
				}
				resetNotes(c)
				c.Note("history", fmt.Sprintf("3 sessions on account tgt; set-user makes the account protected=%v; disconnect (option %s) aimed at session #%d", sc.protect, optNames[sc.opt], sc.k+1))
				c.Note("account_before", bmHex(sc.base))
				if sc.pan != nil {
					c.Note("panic", fmt.Sprint(sc.pan))
					c.Violation("disconnect-panic", "set-user / disconnect panicked")
					sc.ts.Close()
					continue
				}
				acct := sc.ts.Acct.Get("tgt")
				if acct == nil || acct.Access.IsSet(23) != sc.protect {
					c.Disagree("fixture-set-user", "the administrator's set-user did not change the account")
					sc.ts.Close()
					continue
				}
				ip := fmt.Sprintf("10.7.7.%d", sc.k+1)
				if !sc.protect && !sc.conns[sc.k].IsClosed() {
					waitFor(time.Until(lateUntil), sc.conns[sc.k].IsClosed)
				}
				closed := sc.conns[sc.k].IsClosed()
				listed := sc.ts.Srv.ClientMgr.Get(sc.sess[sc.k].ID) != nil
				banned, _ := sc.ts.Bans.IsBanned(ip)
				diskBanned := false
				if bf, err := mobius.NewBanFile(filepath.Join(sc.ts.Cfg, "Banlist.yaml")); err == nil {
					diskBanned, _ = bf.IsBanned(ip)
				}
				rep, _ := requesterReplies(sc.res, sc.rq)
				c.Note("closed", closed)
				c.Note("banned", banned || diskBanned)
				if sc.protect {
					// the ACCOUNT is marked cannot-be-disconnected at the time of the request
					if closed || !listed {
						c.Violation("protected-disconnected", fmt.Sprintf("a session of an account marked cannot-be-disconnected (by set-user, while logged in) was disconnected (session #%d, option %s)", sc.k+1, optNames[sc.opt]))
					}
					if banned || diskBanned {
						c.Violation("protected-banned", fmt.Sprintf("the address of a session of an account marked cannot-be-disconnected was banned (session #%d, option %s)", sc.k+1, optNames[sc.opt]))
					}
					if len(rep) != 1 || !isErrReply(rep[0]) {
						c.Violation("protected-reply", "a disconnect request against a protected user is not answered with the error reply")
					}
				} else {
					c.Corr("unprotected-by-set-user", fmt.Sprintf("closed=%v", closed), "closed=true", false)
				}
				c.Dist(fmt.Sprintf("set-user-protect/%v/session-%d", sc.protect, sc.k+1))
				c.Nontrivial(fmt.Sprintf("sup:%v:%d:%d:%s", sc.protect, sc.k, sc.opt, bmHex(sc.base)))
				sc.ts.Close()
			}
		}})
		// the login window: a disconnect request handled while the protected user's login is still in progress
		// (forced schedule: the account store parks the login's account lookups; during each park every session
		// that is already listed is attacked).  Wire mode: the real handleNewConnection runs the login.
		x.Add(&Family{Name: "login-window", Quick: 9, Thor: 36, Run: func(c *Case) {
			idx := tableIndex(c, 36)
			opts := [][]byte{nil, {0, 1}, {0, 2}}
			optNames := []string{"absent", "temporary", "permanent"}
			oi := idx % 3
			prot := hotline.AccessBitmap(withBit(maskDefined(randBitmap(c.R)), 23))
			ts, err := newTS(TSOpt{Accounts: []AcctSpec{
				{Login: "prot", Name: "prot", Password: "pw", Access: prot},
				{Login: "admin", Name: "admin", Password: "", Access: allOnes()},
			}})
			if err != nil {
				c.Disagree("fixture", "test server could not be built")
				return
			}
			defer ts.Close()
			gate := &gateAM{inner: ts.Acct, login: "prot", hit: make(chan int), release: make(chan struct{})}
			ts.Srv.AccountManager = gate
			ad, _ := ts.DirectClient("admin", []byte("admin"), "10.0.0.2:1000")
			c.Note("option", optNames[oi])
			c.Note("protected_account", bmHex(prot))
			attack := func(phase string) int {
				n := 0
				for _, cl := range ts.Srv.ClientMgr.List() {
					if cl.ID == ad.ID {
						continue
					}
					fs := []hotline.Field{fld(hotline.FieldUserID, cl.ID[:])}
					if opts[oi] != nil {
						fs = append(fs, fld(hotline.FieldOptions, opts[oi]))
					}
					func() {
						defer func() { recover() }()
						h := ts.Srv.VerifHandlers()[hotline.TranDisconnectUser]
						t := mkTran(hotline.TranDisconnectUser, 9, fs...)
						h(ad, &t)
					}()
					n++
				}
				c.Dist("login-window/attacks-" + phase + fmt.Sprintf("-%d", n))
				return n
			}
			const ip = "10.8.8.8"
			wc := ts.Connect(ip+":4000", nil)
			wc.Conn.Feed(clientHandshake)
			wc.Conn.Feed(encTran(loginTran(1, "prot", "pw")))
			done := make(chan bool, 1)
			go func() {
				_, ok := wc.ReplyTo(1, 60*time.Second)
				done <- ok
			}()
			during := 0
			loggedIn := false
		loop:
			for {
				select {
				case <-gate.hit:
					during += attack("during-login")
					gate.release <- struct{}{}
				case ok := <-done:
					loggedIn = ok
					break loop
				case <-time.After(90 * time.Second):
					break loop
				}
			}
			gate.disabled.Store(true)
			if !loggedIn {
				c.Disagree("fixture-login", "the protected user's login did not complete")
				return
			}
			attack("after-login")
			time.Sleep(1500 * time.Millisecond)
			c.Note("attacks_during_login", during)
			closed := wc.Conn.IsClosed()
			banned, _ := ts.Bans.IsBanned(ip)
			listed := false
			for _, cl := range ts.Srv.ClientMgr.List() {
				if cl.ID != ad.ID && cl.Account != nil && cl.Account.Login == "prot" {
					listed = true
				}
			}
			c.Note("closed", closed)
			c.Note("banned", banned)
			if closed || !listed {
				c.Violation("protected-disconnected", "a user whose account is marked cannot-be-disconnected was disconnected by a disconnect request handled while / right after it logged in (option "+optNames[oi]+")")
			}
			if banned {
				c.Violation("protected-banned", "the address of a user whose account is marked cannot-be-disconnected was banned by a disconnect request handled while / right after it logged in (option "+optNames[oi]+")")
			}
			wc.Conn.EOF()
			wc.WaitDone(10 * time.Second)
			c.Nontrivial(fmt.Sprintf("lw:%d:%s", oi, bmHex(prot)))
		}})
		x.Add(&Family{Name: "disconnect", Quick: 16, Thor: 32, Run: func(c *Case) {
			// each case: one requester kind × a slice of the target list × all options, run concurrently
			idx := tableIndex(c, 64)
			reqs := []hotline.AccessBitmap{bmOf(22), allOnes(), bmOf(22, 23), {}}
			rq := reqs[idx%4]
			if idx >= 16 {
				rq = hotline.AccessBitmap(withBit(randBitmap(c.R), 22))
			}
			targets := discTargets(c.R)
			part := (idx / 4) % 4
			var cases []discCase
			for ti, tg := range targets {
				if ti%4 != part {
					continue
				}
				for _, o := range discOptions {
					cases = append(cases, discCase{requester: rq, target: tg, opt: o.name, optBytes: o.b})
				}
			}
			obs := make([]*discObs, len(cases))
			var wg sync.WaitGroup
			sem := make(chan struct{}, 32)
			for i := range cases {
				wg.Add(1)
				go func(i int) {
					defer wg.Done()
					sem <- struct{}{}
					defer func() { <-sem }()
					o, err := startDisconnect(cases[i])
					if err == nil {
						obs[i] = o
					}
				}(i)
			}
			wg.Wait()
			time.Sleep(1400 * time.Millisecond)
			lateUntil := time.Now().Add(30 * time.Second)
			for i, o := range obs {
				if o == nil {
					c.Disagree("fixture", "test server could not be built")
					continue
				}
				o.lateUntil = lateUntil
				resetNotes(c)
				c.Note("case", i)
				o.finish(c)
			}
		}})
		c06WaveD(x)
		c06WaveE(x)
	}
}

var _ = bytes.Equal
