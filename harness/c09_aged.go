//go:build c09

package main

// C09, wave d — histories in which TIME passes between the steps.
//
// The property quantifies over all sequences of cuts followed by resume attempts; nothing in it depends on
// how long the partial file lay idle, how old the final file or the folder is, or how quickly one resume
// request follows another.  Family `upload-aged-histories` therefore runs multi-cut histories (2..6 cuts in
// a row, most of them inside the data fork so that the partial file grows from resume to resume) through the
// real HandleUploadFile + handleFileTransfer and, before every request, moves the modification times of
// <name>.incomplete, <name>, the side files and the folder to a random age (now, a few seconds, just around
// any plausible "idle" threshold, minutes, days, more than a year, the future) — what an idle period looks
// like to the server — or lets nothing pass at all (back-to-back requests).  Between attempts it sometimes
// repeats a request without starting the transfer.  Every resume offset is judged against the size of the
// partial file on disk AT THAT MOMENT, every state against the client's data, the published file must be
// exact, and the whole history (replies and states, event by event) is compared with the model's `uphist`
// (Lean: `upHistory`, the subject of `C09.every_resume_reports_bytes_held` / `timing_is_irrelevant`).

import (
	"fmt"
	"os"
	"path/filepath"
	"strings"
	"time"

	"github.com/jhalter/mobius/hotline"
)

// ages (seconds before now; negative = in the future) a file can be moved to.
var c09Ages = []int{0, 1, 4, 5, 6, 9, 11, 29, 31, 59, 61, 301, 3601, 86401, 40000000, -3600}

// ageNames moves the modification times of the target's names (and its folder) and records the event.
func (u *upTarget) ageNames(step string) {
	r := u.c.R
	if r.Chance(25) {
		u.events = append(u.events, "i0") // back to back: nothing passes
		return
	}
	now := time.Now()
	var ev []string
	touch := func(tag, p string, pct int) {
		if !r.Chance(pct) {
			return
		}
		a := c09Ages[r.Intn(len(c09Ages))]
		t := now.Add(-time.Duration(a) * time.Second)
		if os.Chtimes(p, t, t) == nil {
			ev = append(ev, fmt.Sprintf("%s=%d", tag, a))
		}
	}
	touch("partial", filepath.Join(u.dir, u.name+".incomplete"), 85)
	touch("final", filepath.Join(u.dir, u.name), 85)
	touch("folder", u.dir, 40)
	touch("info", filepath.Join(u.dir, ".info_"+u.name), 30)
	touch("rsrc", filepath.Join(u.dir, ".rsrc_"+u.name), 30)
	if len(ev) == 0 {
		u.events = append(u.events, "i0")
		return
	}
	u.events = append(u.events, "t"+strings.Join(ev, ","))
	u.attempts = append(u.attempts, "aged("+strings.Join(ev, ",")+")")
	u.c.Dist("aged/before-" + step)
}

// askOnly sends an upload request (resume option or not) whose transfer never starts and judges the reply.
func (u *upTarget) askOnly(resume bool) {
	c := u.c
	u.ageNames("ask")
	*u.id++
	fields := []hotline.Field{fld(hotline.FieldFileName, u.reqName)}
	if u.pathField != nil {
		fields = append(fields, fld(hotline.FieldFilePath, u.pathField))
	}
	if resume {
		fields = append(fields, fld(hotline.FieldFileTransferOptions, []byte{0, 1}))
	} else {
		fields = append(fields, fld(hotline.FieldTransferSize, be32(len(u.data))))
	}
	res, _, pan := u.ts.Call(u.cc, mkTran(hotline.TranUploadFile, *u.id, fields...))
	if pan != nil {
		c.Note("panic", fmt.Sprint(pan))
		u.viol("upload-request-panics", "HandleUploadFile panicked on a well-formed request")
		return
	}
	impl := "noreply"
	if len(res) == 1 {
		r0 := res[0]
		_, hasRef := getField(&r0, hotline.FieldRefNum)
		rd, hasRD := getField(&r0, hotline.FieldFileResumeData)
		switch {
		case r0.ErrorCode != [4]byte{}:
			impl = "refused"
		case hasRef && !hasRD:
			impl = "ok"
		case hasRef && hasRD:
			o, ok := parseResumeOffset(rd)
			if !ok {
				u.viol("resume-data-unparseable", "the resume reply's field 203 is not resume data with a DATA fork entry")
				return
			}
			impl = fmt.Sprintf("ok %d", o)
			inc, has := readOpt(filepath.Join(u.dir, u.name+".incomplete"))
			if !has || o != len(inc) {
				u.attempts = append(u.attempts, fmt.Sprintf("ask(resume)→%d", o))
				u.viol("reported-offset", fmt.Sprintf("resume offset %d reported, the partial file holds %d bytes (exists=%v)", o, len(inc), has))
			}
		default:
			impl = "malformed"
		}
	} else if len(res) > 1 {
		impl = fmt.Sprintf("%d transactions", len(res))
	}
	u.attempts = append(u.attempts, fmt.Sprintf("ask(%s)→%s", map[bool]string{true: "resume", false: "fresh"}[resume], impl))
	u.events = append(u.events, map[bool]string{true: "a1", false: "a0"}[resume])
	u.obs = append(u.obs, impl)
	u.describe()
	model := c.AskS("uphandle", lenArg(u.finalLen), lenArg(u.incLen), map[bool]string{true: "1", false: "0"}[resume])
	if f := strings.Fields(model); len(f) == 3 && f[0] == "ok" {
		model = "ok " + f[1]
	}
	c.Corr("upload-reply", impl, model, false)
}

// modelEvents renders the history for the oracle: time events carry no information the model could use
// (`t<anything>` / `i0` are no-ops there — that is the theorem `timing_is_irrelevant`).
func modelEvents(evs []string) string {
	out := make([]string, len(evs))
	for i, e := range evs {
		if strings.HasPrefix(e, "t") {
			e = "t1"
		}
		out[i] = e
	}
	return strings.Join(out, " ")
}

func runC09Aged(c *Case) {
	r := c.R
	ts, set, cc, post, done := c09Setup(c)
	if ts == nil {
		return
	}
	defer done()
	preserve := ts.Srv.Config.PreserveResourceForks
	id := uint32(10)
	for h := 0; h < 6 && !c.failed; h++ {
		var pathItems [][]byte
		for d := r.Pick(0, 1, 1, 2); d > 0; d-- {
			pathItems = append(pathItems, genReqName(r, 16))
		}
		dataLen := r.Pick(40, 300, 3000, 20000, 70000, 600+r.Intn(40000))
		u, err := newUpTarget(c, ts, set, cc, &id, preserve, pathItems, genReqName(r, 60), dataLen)
		if err != nil {
			c.Dist("skip/name-undecodable")
			continue
		}
		u.pre = u.ageNames
		hdrLen := 56 + len(u.info.encode())
		nCuts := 2 + r.Intn(5)
		grew := 0
		for i := 0; i < nCuts && u.finalLen < 0; i++ {
			off := 0
			if u.incLen > 0 {
				off = u.incLen
			}
			rest := len(u.data) - off
			var k int
			switch {
			case rest > 1 && r.Chance(75):
				// inside the data fork: the partial file grows by 1 .. rest-1 bytes
				k = 16 + hdrLen + 1 + r.Intn(rest-1)
			default:
				k = boundaryCuts(r, hdrLen, rest, u.fc, len(u.rsrc))[0]
			}
			before := u.incLen
			if !u.attempt(k, false) {
				break
			}
			if u.incLen > before && before >= 0 {
				grew++
			}
			if u.finalLen < 0 && r.Chance(30) {
				u.askOnly(u.incLen >= 0 && r.Chance(85))
			}
		}
		u.finish(h%2 == 0, post)
		// the whole history, event by event, against the model of client + server
		u.describe()
		c.Note("events", clip(strings.Join(u.events, " ")))
		c.Corr("upload-timed-history", strings.Join(u.obs, " ; "),
			c.AskS("uphist", "7", fmt.Sprint(u.fc), u.info.oracleArgs(), fmt.Sprint(len(u.data)), fmt.Sprint(len(u.rsrc)), modelEvents(u.events)), false)
		if grew > 0 {
			c.Nontrivial("aged|" + strings.Join(u.events, " "))
		}
		c.Dist(fmt.Sprintf("aged/resumes-that-grew-the-partial=%d", min(grew, 4)))
		c.Sample(map[string]any{"family": c.Fam, "data_len": dataLen, "attempts": u.attempts})
	}
}
