//go:build c01

package main

// The flattened-file header as DECODED by the server (flattenedFileObject.ReadFrom, the parser an
// upload goes through): decoding the emitted bytes yields the original object, however the reader
// delivers them (one byte at a time, halves, random pieces, all at once).

import (
	"bytes"
	"encoding/binary"
	"fmt"
	"io"
	"strings"

	"github.com/jhalter/mobius/hotline"
)

// chunkReader delivers at most the scripted number of bytes per Read call.
type chunkReader struct {
	b      []byte
	script []int
	i      int
}

func (c *chunkReader) Read(p []byte) (int, error) {
	if len(c.b) == 0 {
		return 0, io.EOF
	}
	n := len(p)
	if k := c.script[c.i%len(c.script)]; k < n {
		n = k
	}
	c.i++
	if n > len(c.b) {
		n = len(c.b)
	}
	copy(p, c.b[:n])
	c.b = c.b[n:]
	return n, nil
}

func init() {
	c01Extra = append(c01Extra, func(x *Ctx) {
		x.Add(&Family{Name: "ffo-readfrom", Quick: 600, Thor: 20000, Run: func(c *Case) {
			r := c.R
			var ffo hotline.VerifFlattenedFileObject
			ffo.FlatFileHeader = hotline.FlatFileHeader{Format: [4]byte{0x46, 0x49, 0x4c, 0x50}, Version: [2]byte{0, 1}, ForkCount: [2]byte{0, byte(r.Pick(2, 3))}}
			ffo.FlatFileInformationFork = genInfoFork(r)
			if len(ffo.FlatFileInformationFork.Name) > 60000 {
				ffo.FlatFileInformationFork.Name = ffo.FlatFileInformationFork.Name[:300]
			}
			ds := r.Intn(1 << 24)
			ffo.FlatFileDataForkHeader = hotline.FlatFileForkHeader{ForkType: [4]byte{0x44, 0x41, 0x54, 0x41}}
			binary.BigEndian.PutUint32(ffo.FlatFileDataForkHeader.DataSize[:], uint32(ds))
			enc, err := io.ReadAll(func() io.Reader { f := ffo; return &f }())
			if err != nil {
				return
			}
			want := fmt.Sprintf("%d %s %d", ffo.FlatFileHeader.ForkCount[1], infoArgs(&ffo.FlatFileInformationFork), ds)
			c.Note("header_bytes", len(enc))
			scripts := [][]int{{len(enc) + 10}, {1}, {len(enc)/2 + 1}, {1 + r.Intn(40), 1 + r.Intn(200)}, {7}, {124}}
			for _, sc := range scripts {
				got := guard(func() string {
					var g hotline.VerifFlattenedFileObject
					if _, err := g.ReadFrom(&chunkReader{b: append([]byte{}, enc...), script: sc}); err != nil {
						return "err " + err.Error()
					}
					return fmt.Sprintf("%d %s %d", g.FlatFileHeader.ForkCount[1], infoArgs(&g.FlatFileInformationFork),
						binary.BigEndian.Uint32(g.FlatFileDataForkHeader.DataSize[:]))
				})
				c.Dist("ffo-readfrom/" + map[bool]string{true: "same", false: "differs"}[got == want])
				if got != want {
					c.Note("read_sizes", sc)
					c.Note("decoded", clip(got))
					c.Note("original", clip(want))
					c.Violation("ffo-readfrom-roundtrip", "decoding an emitted flattened-file header through ReadFrom does not yield the original object when the bytes arrive in pieces")
					return
				}
			}
			c.Nontrivial(string(enc))
		}})
		// the parser against the model on arbitrary (mutated, truncated, extended) headers
		x.Add(&Family{Name: "ffo-decode", Quick: 1500, Thor: 40000, Run: func(c *Case) {
			r := c.R
			var ffo hotline.VerifFlattenedFileObject
			ffo.FlatFileHeader = hotline.FlatFileHeader{Format: [4]byte{0x46, 0x49, 0x4c, 0x50}, Version: [2]byte{0, 1}, ForkCount: [2]byte{byte(r.Pick(0, 0, 0, 7)), byte(r.Pick(2, 3, 0, 255))}}
			ffo.FlatFileInformationFork = genInfoFork(r)
			ffo.FlatFileDataForkHeader = hotline.FlatFileForkHeader{ForkType: [4]byte{0x44, 0x41, 0x54, 0x41}}
			binary.BigEndian.PutUint32(ffo.FlatFileDataForkHeader.DataSize[:], uint32(r.U64()))
			in, _ := io.ReadAll(func() io.Reader { f := ffo; return &f }())
			kind := r.Intn(6)
			switch kind {
			case 1:
				in = mutate(r, in)
			case 2:
				in = in[:r.Intn(len(in)+1)]
			case 3:
				in = append(in, r.Bytes(r.Intn(40))...)
			case 4: // INFO size smaller / larger than the fork that follows
				if len(in) >= 40 {
					binary.BigEndian.PutUint32(in[36:40], uint32(r.Pick(0, 1, 71, 72, 73, 74, 75, len(in)-56-1, len(in)-56+1, len(in)-40, len(in)-39, 65535)))
				}
			case 5: // name size inconsistent with the fork size
				if len(in) >= 112 {
					binary.BigEndian.PutUint16(in[110:112], uint16(r.Pick(0, 1, 255, 256, len(in), 65535, 65464, 65463)))
				}
			}
			if len(in) >= 38 { // declared INFO size stays below 64 KiB: the parser allocates what is declared
				in[36], in[37] = 0, 0
			}
			c.Dist(fmt.Sprintf("ffo-decode/kind%d", kind))
			want := c.O.Ask("ffodec " + hx(in))
			got := guard(func() string {
				var g hotline.VerifFlattenedFileObject
				if _, err := g.ReadFrom(bytes.NewReader(exact(in))); err != nil {
					return "err"
				}
				return fmt.Sprintf("ok %d %s %d", binary.BigEndian.Uint16(g.FlatFileHeader.ForkCount[:]), infoArgs(&g.FlatFileInformationFork),
					binary.BigEndian.Uint32(g.FlatFileDataForkHeader.DataSize[:]))
			})
			c.Dist("ffo-decode/" + strings.SplitN(got, " ", 2)[0])
			c.Corr("flattenedFileObject.ReadFrom", got, want, false)
			if strings.HasPrefix(got, "ok") {
				c.Nontrivial(string(in))
			}
		}})
	})
}
