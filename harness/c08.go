//go:build c08

package main

import (
	"fmt"
	"os"
	"path/filepath"

	"github.com/jhalter/mobius/hotline"
)

// C08 — downloads deliver exactly the file's bytes.
//
// Generated files (contents, sizes, names, side files) are stored under a throw-away file root and
// downloaded through the real HandleDownloadFile + handleFileTransfer; a reference client splits the
// stream by the header's own length fields.  Header bytes and reply fields are compared with the
// Lean model (the compiled definitions the theorems of Props/C08.lean are about); payload equality
// is judged here against the bytes on disk; every clause of the property is also evaluated directly
// on what the implementation sent.


func c08Sizes(r *RNG, max int) int {
	switch r.Intn(10) {
	case 0:
		return r.Pick(0, 0, 1, 2)
	case 1:
		return r.Pick(15, 16, 17, 255, 256, 257, 4095, 4096, 4097)
	case 2:
		return r.Pick(32767, 32768, 32769, 65535, 65536, 65537)
	case 3, 4, 5:
		return r.Intn(2000)
	case 6, 7:
		return r.Intn(200 * 1024)
	case 8:
		return max - r.Intn(3)
	default:
		return r.Intn(max + 1)
	}
}

func c08Requests(r *RNG, size int) []dlRequestSpec {
	offs := []int{0, 1, size - 1, size, r.Intn(size + 1), r.Intn(size + 1)}
	var out []dlRequestSpec
	out = append(out, dlRequestSpec{}) // plain download
	n := 2 + r.Intn(3)
	for i := 0; i < n; i++ {
		k := offs[r.Intn(len(offs))]
		if k < 0 {
			k = 0
		}
		if k > size {
			k = size
		}
		out = append(out, dlRequestSpec{resume: true, k: k, preview: r.Chance(20)})
	}
	if r.Chance(40) {
		out = append(out, dlRequestSpec{preview: true})
	}
	if r.Chance(6) {
		out = append(out, dlRequestSpec{resume: true, k: size + 1 + r.Intn(5)}) // beyond the end: outside the property's quantifier, model only
	}
	return out
}

func genDiskFile(c *Case, ts *TS, maxSize int) (*diskFile, []byte, error) {
	r := c.R
	var pathItems [][]byte
	for d := r.Pick(0, 0, 1, 2); d > 0; d-- {
		pathItems = append(pathItems, genReqName(r, 24))
	}
	var pathField []byte
	if len(pathItems) > 0 {
		pathField = encodePathItems(pathItems)
	}
	req := genReqName(r, 80)
	dir, name, err := diskNameOf(ts, pathField, req)
	if err != nil {
		return nil, nil, err
	}
	f := &diskFile{Dir: dir, Name: name, ReqName: req, Data: genData(r, c08Sizes(r, maxSize)), ModTime: randModTime(r)}
	switch r.Intn(6) {
	case 0, 1, 2: // no side files
	case 3: // information fork only
		i := randInfoSpec(r, req)
		f.Info = &i
	case 4: // both
		i := randInfoSpec(r, req)
		f.Info = &i
		f.HasRsrc = true
		f.Rsrc = genData(r, r.Pick(0, 1, 16, 300, 5000, r.Intn(70000)))
	default: // resource fork only
		f.HasRsrc = true
		f.Rsrc = genData(r, r.Pick(0, 1, 16, 300, r.Intn(5000)))
	}
	if f.Info != nil && len(f.Info.Comment) == 0 && r.Chance(50) {
		// an information fork may end right after the name (no comment-size field at all)
		b := f.Info.encode()
		f.InfoRaw = b[:len(b)-2]
	}
	return f, pathField, nil
}

func init() {
	props["C08"] = func(x *Ctx) {
		x.rule = "files generated per case (sizes 0,1,2, 15..17, 255..257, 4095..4097, 32767..32769, 65535..65537, random up to 2 KB / 200 KB / the tier maximum of 1 MiB quick and 8 MiB thorough; names with spaces, dots, leading dots, punctuation, Mac-Roman non-ASCII, long names, in the root or up to two sub-folders; none / .info_ / .info_+.rsrc_ / .rsrc_ side files, comments 0..300 bytes, information forks with and without a comment-size field) and downloaded with: no resume data, resume offsets 0,1,size-1,size,random, preview with and without resume data; transfer connections are read with random segmentation. family download-alias: aliases of such files made by the real Make Alias transaction (same name, other folder, optionally with an information fork next to the alias) and fixture links (other name and extension, relative target, link to a link), downloaded and resumed under the same monitors — an alias download is the target's bytes under the alias's name. non-trivial = the transfer handler delivered a stream for a granted request; distinct = distinct (name, size, fork combination, side-file sizes, offset, resume/preview flags)"
		x.assume = []string{
			"reading of DESIGN §7 C08: the 16-byte zero-length MACR fork header after the data is not counted by the transfer size and is the only accepted trailer without a stored resource fork",
			"reference layouts in lean/MobiusModel/Wire.lean; type/creator codes by extension and the local-time date encoding are computed independently by the harness",
			"offsets beyond the file size are outside the quantifier (model correspondence only)",
		}
		x.Add(&Family{Name: "download", Quick: 48, Thor: 640, Run: func(c *Case) { runC08(c, false) }})
		x.Add(&Family{Name: "download-alias", Quick: 16, Thor: 96, Run: runC08Alias})
		x.Add(&Family{Name: "download-large", Quick: 16, Thor: 96, Run: func(c *Case) { runC08(c, true) }})
		// wave d (c08_roots.go): per-account file roots, the real transfer listener, statistics readers polling meanwhile
		x.Add(&Family{Name: "download-account-root", Quick: 12, Thor: 120, Run: runC08AccountRoot})
		x.Add(&Family{Name: "download-port", Quick: 6, Thor: 48, Run: runC08Port})
		x.Add(&Family{Name: "download-stats-polled", Quick: 8, Thor: 64, Run: runC08StatsPolled})
		// wave e (c08_ambig.go): names whose Mac Roman wire bytes are also well-formed UTF-8, with decoys of the other reading
		x.Add(&Family{Name: "download-ambiguous-names", Quick: 12, Thor: 120, Run: runC08Ambiguous})
	}
}

func runC08(c *Case, large bool) {
	r := c.R
	ts, err := newTS(TSOpt{Direct: true, PreserveForks: r.Bool()})
	if err != nil {
		c.Note("setup", err.Error())
		return
	}
	defer ts.Close()
	set := &transferSet{ts: ts, x: c.X}
	var post []func()
	defer func() {
		if !set.waitAll() {
			c.Violation("transfer-handler-hangs", "a transfer handler did not return")
		}
		for _, f := range post {
			f()
		}
	}()
	cc, _ := ts.DirectClient("admin", []byte("admin"), "127.0.0.1:1234")
	maxSize := 200 * 1024
	nFiles := 8
	if large {
		nFiles = 2
		maxSize = 1 << 20
		if c.X.Tier == "thorough" {
			maxSize = 8 << 20
		}
	}
	id := uint32(1)
	for fi := 0; fi < nFiles; fi++ {
		f, pathField, err := genDiskFile(c, ts, maxSize)
		if err != nil {
			c.Dist("skip/name-undecodable")
			continue
		}
		if large && fi == 0 {
			f.Data = genData(r, maxSize-r.Intn(4096))
		}
		if err := f.write(); err != nil {
			c.Dist("skip/write-failed")
			continue
		}
		for _, rq := range c08Requests(r, len(f.Data)) {
			id++
			checkDownload(c, ts, set, &post, cc, id, f, pathField, rq)
		}
	}
}

// runC08Alias: downloads of ALIASES.  An alias is a symbolic link; what a download of it must deliver is the
// target's data fork — announced sizes = bytes delivered = the target's bytes — under the alias's own name, with
// the side files (if any) that sit next to the alias.  Aliases are made by the real HandleMakeAlias (same name,
// other folder) and, to cover other names, relative targets and chains, by the fixture.
func runC08Alias(c *Case) {
	r := c.R
	ts, err := newTS(TSOpt{Direct: true})
	if err != nil {
		return
	}
	defer ts.Close()
	set := &transferSet{ts: ts, x: c.X}
	var post []func()
	defer func() {
		if !set.waitAll() {
			c.Violation("transfer-handler-hangs", "a transfer handler did not return")
		}
		for _, f := range post {
			f()
		}
	}()
	cc, _ := ts.DirectClient("admin", []byte("admin"), "127.0.0.1:1234")
	srcItems := [][]byte{genReqName(r, 16)}
	dstItems := [][]byte{genReqName(r, 16)}
	if string(srcItems[0]) == string(dstItems[0]) {
		dstItems[0] = append(dstItems[0], 'x')
	}
	if r.Bool() {
		dstItems = append(dstItems, genReqName(r, 12))
	}
	srcField, dstField := encodePathItems(srcItems), encodePathItems(dstItems)
	id := uint32(1)
	for fi := 0; fi < 5; fi++ {
		req := genReqName(r, 60)
		dir, name, err := diskNameOf(ts, srcField, req)
		if err != nil {
			continue
		}
		dstDir, _, err := diskNameOf(ts, dstField, req)
		if err != nil || os.MkdirAll(dstDir, 0755) != nil {
			continue
		}
		tgt := &diskFile{Dir: dir, Name: name, ReqName: req, Data: genData(r, c08Sizes(r, 200*1024)), ModTime: randModTime(r)}
		if r.Chance(40) {
			i := randInfoSpec(r, req)
			tgt.Info = &i
			if r.Bool() {
				tgt.HasRsrc, tgt.Rsrc = true, genData(r, r.Intn(500))
			}
		}
		if tgt.write() != nil {
			continue
		}
		// (1) the real Make Alias transaction: same name, in the other folder
		id++
		res, _, pan := ts.Call(cc, mkTran(hotline.TranMakeFileAlias, id, fld(hotline.FieldFileName, req), fld(hotline.FieldFilePath, srcField), fld(hotline.FieldFileNewPath, dstField)))
		if pan != nil || len(res) != 1 || res[0].ErrorCode != [4]byte{} {
			c.Note("file", tgt.path())
			c.Violation("make-alias-failed", "a granted Make Alias request for an existing file failed")
			continue
		}
		alias := &diskFile{Dir: dstDir, Name: name, ReqName: req, Data: tgt.Data, ModTime: tgt.ModTime}
		if fi, err := os.Lstat(alias.path()); err != nil || fi.Mode()&os.ModeSymlink == 0 {
			c.Violation("make-alias-failed", "Make Alias did not create a link at the new path")
			continue
		}
		if r.Chance(30) {
			// side files next to the ALIAS are the alias's forks
			i := randInfoSpec(r, req)
			alias.Info, alias.InfoRaw = &i, i.encode()
			os.WriteFile(filepath.Join(dstDir, ".info_"+name), alias.InfoRaw, 0644)
		}
		c.Dist("alias/made-by-handler")
		for _, rq := range c08Requests(r, len(alias.Data)) {
			id++
			c.Note("alias_of", tgt.path())
			checkDownload(c, ts, set, &post, cc, id, alias, dstField, rq)
		}
		// (2) fixture links: another name (other extension), relative target, and a link to the link
		req2 := append([]byte(fmt.Sprintf("lnk%d-", fi)), req...)
		req2 = append(req2, []byte(r.pickStr("", ".txt", ".jpg", ".zip"))...)
		d2, n2, err := diskNameOf(ts, srcField, req2)
		if err == nil && os.Symlink(name, filepath.Join(d2, n2)) == nil { // relative, same folder
			l := &diskFile{Dir: d2, Name: n2, ReqName: req2, Data: tgt.Data, ModTime: tgt.ModTime}
			c.Dist("alias/relative-other-name")
			for _, rq := range c08Requests(r, len(l.Data))[:2] {
				id++
				c.Note("alias_of", tgt.path())
				checkDownload(c, ts, set, &post, cc, id, l, srcField, rq)
			}
			req3 := append([]byte("chain-"), req2...)
			d3, n3, err := diskNameOf(ts, dstField, req3)
			if err == nil && os.Symlink(filepath.Join(d2, n2), filepath.Join(d3, n3)) == nil {
				l3 := &diskFile{Dir: d3, Name: n3, ReqName: req3, Data: tgt.Data, ModTime: tgt.ModTime}
				c.Dist("alias/chain")
				id++
				checkDownload(c, ts, set, &post, cc, id, l3, dstField, dlRequestSpec{resume: true, k: r.Intn(len(l3.Data) + 1)})
			}
		}
	}
}
