//go:build c06

package main

// C06 wave e — `case-logins`: logins differing only in case as separate accounts with live sessions (see
// caselogins_common.go).  After every single-account edit — naming a key or another spelling —
//   * sessions try to create an account (asking for what the session currently carries, or a random bitmap): whatever
//     comes to exist is judged against the creator's STORED account (the key byte-wise equal to the session's login),
//     in memory and on disk, and compared with the Lean model of HandleNewUser run on the stored bitmap;
//   * every session whose STORED account is marked cannot-be-disconnected is attacked with a disconnect request
//     (no ban / temporary / permanent): error reply, no ban, still listed, connection open.

import (
	"fmt"
	"strings"
	"time"

	"github.com/jhalter/mobius/hotline"
)

func runCaseLoginsC06(c *Case) {
	r := c.R
	tuned := func() hotline.AccessBitmap {
		b := maskDefined(randBitmap(r))
		if r.Chance(75) {
			b = withBit(b, hotline.AccessCreateUser)
		}
		if r.Bool() {
			b = withBit(b, hotline.AccessCannotBeDiscon)
		} else {
			b = withoutBit(b, hotline.AccessCannotBeDiscon)
		}
		return hotline.AccessBitmap(b)
	}
	w := clBuild(c, func(string) hotline.AccessBitmap { return tuned() })
	if w == nil {
		return
	}
	defer w.ts.Close()
	opts := [][]byte{nil, {0, 1}, {0, 2}}
	optNames := []string{"absent", "temporary", "permanent"}
	steps := 3 + r.Intn(3)
	keyEdits, otherSpelling, created, attacked := 0, 0, 0, 0
	var suspects []*clSess // protected sessions whose attack was not answered with the error reply
	for st := 0; st < steps; st++ {
		named := w.pickNamed(r)
		var now hotline.AccessBitmap
		if prev := w.stored(w.keys[r.Intn(len(w.keys))]); prev != nil && r.Bool() {
			// a neighbour of an existing bitmap: drop / add a few privileges, toggle protection
			b := [8]byte(prev.Access)
			for k := 0; k < 1+r.Intn(3); k++ {
				g := r.Intn(41)
				if r.Bool() {
					b = withoutBit(b, g)
				} else {
					b = withBit(b, g)
				}
			}
			if r.Bool() {
				b = withBit(b, hotline.AccessCannotBeDiscon)
			}
			now = hotline.AccessBitmap(maskDefined(b))
		} else {
			now = tuned()
		}
		e := w.edit(c, named, now)
		what := fmt.Sprintf("step %d: %s", st+1, clDescribe(e))
		c.Note(fmt.Sprintf("step%d", st+1), clDescribe(e))
		if e.pan != nil {
			c.Violation("set-user-panic", what+": the handler panicked: "+fmt.Sprint(e.pan))
			return
		}
		if e.isKey {
			keyEdits++
		} else {
			otherSpelling++
		}
		c.Corr("case-logins-step", w.state(), c.O.Ask("sulogins "+strings.Join(w.toks, " ")), false)
		for si, s := range w.sess {
			acct := w.stored(s.login)
			if acct == nil || acct.Login != s.login {
				c.Disagree("case-logins-account-lost", what+": the account "+s.login+" is gone")
				return
			}
			who := fmt.Sprintf("session #%d of account %q", si+1, s.login)
			// --- creation: sessions whose login equals the named one up to case always, the others now and then
			if strings.EqualFold(s.login, named) || r.Chance(25) {
				field := s.cc.Account.Access
				if r.Chance(35) {
					field = hotline.AccessBitmap(maskDefined(randBitmap(r)))
				}
				login := fmt.Sprintf("n%d-%d", st+1, si+1)
				w.nID++
				res, _, pan := w.ts.Call(s.cc, newUserTran(w.nID, login, "Fresh", "pw", field[:]))
				if pan != nil {
					c.Violation("create-panic", what+": account creation by "+who+" panicked")
					continue
				}
				class := createReplyClass(res, s.cc)
				obs := judgeCreated(c, w.ts, what+"; then "+who+" creates "+login, login, acct.Access, field[:], class)
				c.Corr("create-after-case-logins", obs, c.AskS("newuser", bmHex(acct.Access), "0", hx(field[:]), "0"), false)
				if strings.HasPrefix(obs, "created") {
					created++
				}
				c.Evals(1)
			}
			// --- protection: the STORED account of the target is marked cannot-be-disconnected
			if acct.Access.IsSet(hotline.AccessCannotBeDiscon) {
				oi := r.Intn(3)
				fs := []hotline.Field{fld(hotline.FieldUserID, s.cc.ID[:])}
				if opts[oi] != nil {
					fs = append(fs, fld(hotline.FieldOptions, opts[oi]))
				}
				w.nID++
				res, _, pan := w.ts.Call(w.req, mkTran(hotline.TranDisconnectUser, w.nID, fs...))
				if pan != nil {
					c.Violation("disconnect-panic", what+": disconnect request against "+who+" panicked")
					continue
				}
				attacked++
				rep, _ := requesterReplies(res, w.req)
				if len(rep) != 1 || !isErrReply(rep[0]) {
					c.Violation("protected-reply", fmt.Sprintf("%s: a disconnect request (option %s) against %s, whose account is marked cannot-be-disconnected, is not answered with the error reply (account %s, session %s)",
						what, optNames[oi], who, bmHex(acct.Access), bmHex(s.cc.Account.Access)))
					suspects = append(suspects, s)
				}
				if banned, _ := w.ts.Bans.IsBanned(s.ip); banned {
					c.Violation("protected-banned", fmt.Sprintf("%s: the address of %s, whose account is marked cannot-be-disconnected, was banned (option %s)", what, who, optNames[oi]))
				}
				c.Evals(1)
			}
		}
	}
	// the delayed disconnect: only when a protected target was not refused (never on the unchanged tree)
	for _, s := range suspects {
		if waitFor(5*time.Second, s.nc.IsClosed) || w.ts.Srv.ClientMgr.Get(s.cc.ID) == nil {
			c.Violation("protected-disconnected", fmt.Sprintf("a session of account %q, marked cannot-be-disconnected in the account store, was disconnected", s.login))
		}
	}
	for si, s := range w.sess {
		if acct := w.stored(s.login); acct != nil && acct.Access.IsSet(hotline.AccessCannotBeDiscon) {
			if s.nc.IsClosed() || w.ts.Srv.ClientMgr.Get(s.cc.ID) == nil {
				c.Violation("protected-disconnected", fmt.Sprintf("session #%d of account %q, marked cannot-be-disconnected in the account store, is closed / no longer listed", si+1, s.login))
			}
		}
	}
	c.Dist(fmt.Sprintf("case-logins/edits-of-keys-%d/other-spellings-%d", keyEdits, otherSpelling))
	c.Dist(fmt.Sprintf("case-logins/created-%d/attacked-%d", min(created, 5), min(attacked, 5)))
	if keyEdits > 0 && otherSpelling > 0 && created+attacked > 0 {
		c.Nontrivial(strings.Join(w.toks, " "))
	}
	if c.Idx%25 == 0 {
		c.Sample(map[string]any{"family": "case-logins", "accounts": w.keys, "history": w.toks, "created": created, "attacked": attacked})
	}
}

func c06WaveE(x *Ctx) {
	x.rule += " wave e: case-logins = case variants of one login as separate accounts and a single spelling of a second, sessions on each, 3-5 set-user requests naming keys and other spellings; after every edit creations by the sessions (asking for what the session carries / a random bitmap) judged against the creator's STORED account in memory and on disk, and a disconnect request (absent / temporary / permanent) against every session whose stored account is protected; non-trivial = an edit of a key, one naming another spelling and at least one creation or attack, distinct by the whole history."
	x.Add(&Family{Name: "case-logins", Quick: 60, Thor: 1200, Run: runCaseLoginsC06})
}
