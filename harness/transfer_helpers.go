//go:build c08 || c09 || c10

package main

// Shared pieces of the transfer checks (C08 downloads, C09 uploads, C10 folder transfers):
//   - dlgConn: an in-memory transfer connection whose peer is a synchronous client state machine
//     (the client is consulted exactly when the server wants to read and nothing is pending, and is
//     handed everything the server wrote since its last turn), with scripted read segmentation and a
//     hard cut after k bytes;
//   - reference encoders/decoders written from the protocol description (flattened file object,
//     information fork, fork headers, resume data, item headers, transfer preamble);
//   - reference clients: single-file download splitter, upload stream builder, folder-download and
//     folder-upload dialogue clients;
//   - running a transfer on the real handleFileTransfer and waiting for its body to finish.

import (
	"bytes"
	"encoding/binary"
	"fmt"
	"io"
	"os"
	"path/filepath"
	"sort"
	"strings"
	"sync"
	"sync/atomic"
	"time"

	"github.com/jhalter/mobius/hotline"
)

// ---------------------------------------------------------------- dialogue connection

type dlgConn struct {
	mu      sync.Mutex
	in      []byte // fed, not yet read
	eof     bool
	out     []byte // everything the server wrote
	turnOut []byte // written since the client's last turn
	next    func(written []byte) (feed []byte, eof bool)
	segs    []int // read segmentation script (cycled; 0 = as much as asked)
	segIdx  int
	reads   int
}

func newDlgConn(initial []byte, segs []int, next func([]byte) ([]byte, bool)) *dlgConn {
	return &dlgConn{in: append([]byte{}, initial...), segs: segs, next: next}
}

func (d *dlgConn) Read(p []byte) (int, error) {
	d.mu.Lock()
	defer d.mu.Unlock()
	d.reads++
	for len(d.in) == 0 {
		if d.eof {
			return 0, io.EOF
		}
		if d.next == nil {
			d.eof = true
			continue
		}
		w := d.turnOut
		d.turnOut = nil
		feed, e := d.next(w)
		d.in = append(d.in, feed...)
		if e || len(feed) == 0 {
			d.eof = true
		}
	}
	n := len(p)
	if len(d.segs) > 0 {
		k := d.segs[d.segIdx%len(d.segs)]
		d.segIdx++
		if k > 0 && k < n {
			n = k
		}
	}
	if n > len(d.in) {
		n = len(d.in)
	}
	copy(p, d.in[:n])
	d.in = d.in[n:]
	return n, nil
}

func (d *dlgConn) Write(p []byte) (int, error) {
	d.mu.Lock()
	defer d.mu.Unlock()
	d.out = append(d.out, p...)
	d.turnOut = append(d.turnOut, p...)
	return len(p), nil
}

func (d *dlgConn) Written() []byte {
	d.mu.Lock()
	defer d.mu.Unlock()
	return append([]byte{}, d.out...)
}

// Tail returns what the server wrote after the client's last turn.
func (d *dlgConn) Tail() []byte {
	d.mu.Lock()
	defer d.mu.Unlock()
	return append([]byte{}, d.turnOut...)
}

func randSegs(r *RNG) []int {
	switch r.Intn(5) {
	case 0:
		return nil
	case 1:
		return []int{1}
	case 2:
		return []int{1 + r.Intn(7), 1 + r.Intn(40)}
	case 3:
		return []int{3, 13, 0, 1, 4096}
	default:
		return []int{1 + r.Intn(3000)}
	}
}

// ---------------------------------------------------------------- running transfers

type xfer struct {
	ts   *TS
	ref  [4]byte
	conn *dlgConn
	done chan error
	err  error
	ret  bool
}

// transferSet tracks the transfer goroutines of one case so that they can all be awaited once.
type transferSet struct {
	ts *TS
	x  *Ctx
	xs []*xfer
}

func (s *transferSet) start(ref [4]byte, conn *dlgConn) *xfer {
	if s.x != nil {
		atomic.AddInt64(&s.x.evals, 1) // every transfer through the real handler is one evaluation
	}
	x := &xfer{ts: s.ts, ref: ref, conn: conn, done: make(chan error, 1)}
	s.xs = append(s.xs, x)
	go func() {
		x.done <- s.ts.Srv.VerifHandleFileTransfer(conn, "127.0.0.1:1234")
	}()
	return x
}

// waitBody waits until the transfer handler's body has finished: either the function returned, or
// its deferred cleanup removed the transfer from the server's table (which it does before the
// 3-second courtesy sleep).  No latency is asserted; the generous cap only guards against a hang.
func (x *xfer) waitBody() bool {
	deadline := time.Now().Add(120 * time.Second)
	for {
		select {
		case e := <-x.done:
			x.err, x.ret = e, true
			return true
		default:
		}
		if x.ret {
			return true
		}
		if x.ts.Srv.FileTransferMgr.Get(x.ref) == nil {
			return true
		}
		if time.Now().After(deadline) {
			return false
		}
		time.Sleep(100 * time.Microsecond)
	}
}

// waitReturn waits for the handler function to return (after its sleep) and yields its error.
func (x *xfer) waitReturn() (error, bool) {
	if x.ret {
		return x.err, true
	}
	select {
	case e := <-x.done:
		x.err, x.ret = e, true
		return e, true
	case <-time.After(120 * time.Second):
		return nil, false
	}
}

func (s *transferSet) waitAll() bool {
	ok := true
	for _, x := range s.xs {
		if _, r := x.waitReturn(); !r {
			ok = false
		}
	}
	return ok
}

// ---------------------------------------------------------------- reference layouts (written from the protocol)

func preambleBytes(ref [4]byte, size int) []byte {
	b := []byte("HTXF")
	b = append(b, ref[:]...)
	b = append(b, be32(size)...)
	return append(b, 0, 0, 0, 0)
}

// infoSpec is an information fork.
type infoSpec struct {
	Platform, Type, Creator, Flags, PlatformFlags []byte // 4 each
	Rsvd                                          []byte // 32
	Create, Modify                                []byte // 8 each
	Script                                        []byte // 2
	Name, Comment                                 []byte
}

func (i infoSpec) encode() []byte {
	var b []byte
	for _, p := range [][]byte{i.Platform, i.Type, i.Creator, i.Flags, i.PlatformFlags, i.Rsvd, i.Create, i.Modify, i.Script} {
		b = append(b, p...)
	}
	b = append(b, be16(len(i.Name))...)
	b = append(b, i.Name...)
	b = append(b, be16(len(i.Comment))...)
	return append(b, i.Comment...)
}

// oracleArgs renders the 11 tokens the oracle's information-fork parser expects.
func (i infoSpec) oracleArgs() string {
	return strings.Join([]string{hx(i.Platform), hx(i.Type), hx(i.Creator), hx(i.Flags), hx(i.PlatformFlags), hx(i.Rsvd),
		hx(i.Create), hx(i.Modify), hx(i.Script), hx(i.Name), hx(i.Comment)}, " ")
}

func defaultInfoSpec(name, mtime, ty, creator []byte) infoSpec {
	return infoSpec{Platform: []byte("AMAC"), Type: ty, Creator: creator, Flags: make([]byte, 4), PlatformFlags: []byte{0, 0, 1, 0},
		Rsvd: make([]byte, 32), Create: mtime, Modify: mtime, Script: []byte{0, 0}, Name: name, Comment: nil}
}

func randInfoSpec(r *RNG, name []byte) infoSpec {
	i := infoSpec{Platform: []byte(r.pickStr("AMAC", "MWIN")), Type: r.Bytes(4), Creator: r.Bytes(4), Flags: r.Bytes(4),
		PlatformFlags: r.Bytes(4), Rsvd: make([]byte, 32), Create: r.Bytes(8), Modify: r.Bytes(8), Script: []byte{0, byte(r.Intn(3))}, Name: name}
	if r.Chance(30) {
		i.Rsvd = r.Bytes(32)
	}
	switch r.Intn(4) {
	case 0:
	case 1:
		i.Comment = r.Text(1 + r.Intn(20))
	default:
		i.Comment = r.Text(r.Intn(300))
	}
	if r.Chance(20) {
		i.Name = r.Text(r.Intn(64)) // an information fork may carry another name than the file's
	}
	return i
}

func (r *RNG) pickStr(xs ...string) string { return xs[r.Intn(len(xs))] }

func forkHeaderBytes(ty string, size int) []byte {
	b := []byte(ty)
	b = append(b, make([]byte, 8)...)
	return append(b, be32(size)...)
}

// ffoHeaderBytes: "FILP" version 1, 16 reserved, fork count | INFO fork header | information fork | DATA fork header.
func ffoHeaderBytes(forkCount int, info infoSpec, dataSize int) []byte {
	ib := info.encode()
	b := []byte("FILP")
	b = append(b, 0, 1)
	b = append(b, make([]byte, 16)...)
	b = append(b, be16(forkCount)...)
	b = append(b, forkHeaderBytes("INFO", len(ib))...)
	b = append(b, ib...)
	return append(b, forkHeaderBytes("DATA", dataSize)...)
}

// uploadStreamBytes is what a client sends on an upload connection after the preamble.
func uploadStreamBytes(forkCount int, info infoSpec, data, rsrc []byte) []byte {
	b := ffoHeaderBytes(forkCount, info, len(data))
	b = append(b, data...)
	if forkCount == 3 {
		b = append(b, forkHeaderBytes("MACR", len(rsrc))...)
		b = append(b, rsrc...)
	}
	return b
}

// resumeDataBytes: "RFLT" version 1, 34 reserved, fork count, then per fork: type, offset, 8 reserved.
func resumeDataBytes(dataOffset int) []byte {
	b := []byte("RFLT")
	b = append(b, 0, 1)
	b = append(b, make([]byte, 34)...)
	b = append(b, 0, 1)
	b = append(b, []byte("DATA")...)
	b = append(b, be32(dataOffset)...)
	return append(b, make([]byte, 8)...)
}

// parseResumeOffset reads the DATA fork offset of resume data (reference parser).
func parseResumeOffset(b []byte) (int, bool) {
	if len(b) < 58 || string(b[:4]) != "RFLT" || b[41] < 1 || string(b[42:46]) != "DATA" {
		return 0, false
	}
	return int(binary.BigEndian.Uint32(b[46:50])), true
}

func encodePathItems(items [][]byte) []byte {
	b := be16(len(items))
	for _, it := range items {
		b = append(b, 0, 0, byte(len(it)))
		b = append(b, it...)
	}
	return b
}

// itemHeaderBytes: size(2) = 2 + |encoded path|, type(2) (1 = folder), encoded path.
func itemHeaderBytes(comps [][]byte, isDir bool) []byte {
	ep := encodePathItems(comps)
	b := be16(len(ep) + 2)
	if isDir {
		b = append(b, 0, 1)
	} else {
		b = append(b, 0, 0)
	}
	return append(b, ep...)
}

// parseItemHeader is the reference parser of one folder item header; rest = bytes after it.
func parseItemHeader(b []byte) (comps [][]byte, isDir bool, rest []byte, err error) {
	if len(b) < 6 {
		return nil, false, b, fmt.Errorf("item header shorter than 6 bytes (%d)", len(b))
	}
	sz := int(binary.BigEndian.Uint16(b[0:2]))
	if len(b) < 2+sz || sz < 4 {
		return nil, false, b, fmt.Errorf("item header announces %d bytes, %d follow", sz, len(b)-2)
	}
	ty := binary.BigEndian.Uint16(b[2:4])
	n := int(binary.BigEndian.Uint16(b[4:6]))
	p := b[6 : 2+sz]
	for i := 0; i < n; i++ {
		if len(p) < 3 {
			return nil, false, b, fmt.Errorf("path item %d cut", i)
		}
		l := int(p[2])
		if len(p) < 3+l {
			return nil, false, b, fmt.Errorf("path item %d name cut", i)
		}
		comps = append(comps, append([]byte{}, p[3:3+l]...))
		p = p[3+l:]
	}
	if len(p) != 0 {
		return nil, false, b, fmt.Errorf("%d bytes left in the item header after %d path items", len(p), n)
	}
	return comps, ty == 1, b[2+sz:], nil
}

// ---------------------------------------------------------------- reference download client

type dlSplit struct {
	OK        bool
	Why       string
	Hdr       []byte // the whole flattened-file header
	ForkCount int
	InfoSize  int // INFO fork header's size field
	Info      []byte
	NameSize  int
	Name      []byte
	DataSize  int // DATA fork header's size field
	Data      []byte
	Trailer   []byte
}

// splitFlattened parses a flattened file object followed by `dataLen` data bytes (reference client:
// it follows the header's own length fields).
func splitFlattened(s []byte, dataLen int) dlSplit {
	var d dlSplit
	if len(s) < 40 {
		d.Why = fmt.Sprintf("stream of %d bytes is shorter than the fixed header", len(s))
		return d
	}
	if string(s[0:4]) != "FILP" || s[4] != 0 || s[5] != 1 {
		d.Why = "stream does not start with FILP version 1"
		return d
	}
	d.ForkCount = int(binary.BigEndian.Uint16(s[22:24]))
	if string(s[24:28]) != "INFO" {
		d.Why = "first fork header is not INFO"
		return d
	}
	d.InfoSize = int(binary.BigEndian.Uint32(s[36:40]))
	if len(s) < 40+d.InfoSize+16 {
		d.Why = fmt.Sprintf("INFO size field %d exceeds the stream", d.InfoSize)
		return d
	}
	d.Info = s[40 : 40+d.InfoSize]
	dh := s[40+d.InfoSize : 56+d.InfoSize]
	if string(dh[0:4]) != "DATA" {
		d.Why = fmt.Sprintf("no DATA fork header after the %d information fork bytes the INFO size field announces", d.InfoSize)
		return d
	}
	d.DataSize = int(binary.BigEndian.Uint32(dh[12:16]))
	if d.InfoSize >= 72 {
		d.NameSize = int(binary.BigEndian.Uint16(d.Info[70:72]))
		if 72+d.NameSize <= len(d.Info) {
			d.Name = d.Info[72 : 72+d.NameSize]
		} else {
			d.Why = fmt.Sprintf("name size field %d exceeds the information fork", d.NameSize)
			return d
		}
	}
	d.Hdr = s[:56+d.InfoSize]
	body := s[56+d.InfoSize:]
	if len(body) < dataLen {
		d.Why = fmt.Sprintf("%d bytes follow the header, %d data bytes were announced", len(body), dataLen)
		return d
	}
	d.Data = body[:dataLen]
	d.Trailer = body[dataLen:]
	d.OK = true
	return d
}

// ---------------------------------------------------------------- files on disk

// diskFile describes one stored file (what the harness wrote under the file root).
type diskFile struct {
	Dir      string // absolute directory
	Name     string // on-disk (UTF-8) name
	ReqName  []byte // the name as a client sends it (Mac Roman)
	Data     []byte
	Info     *infoSpec // `.info_<name>` holds its encoding (nil: no side file)
	InfoRaw  []byte    // bytes actually stored in the side file
	Rsrc     []byte    // `.rsrc_<name>` (nil: no side file; empty non-nil: empty side file)
	HasRsrc  bool
	ModTime  time.Time
	Dangling bool // an alias whose target is gone: no stat succeeds — empty data fork, zero dates, default TEXT/TTXT
}

var extTypes = map[string][2]string{
	".sit": {"SIT!", "SIT!"}, ".pdf": {"PDF ", "CARO"}, ".gif": {"GIFf", "ogle"}, ".txt": {"TEXT", "ttxt"},
	".zip": {"ZIP ", "SITx"}, ".tgz": {"Gzip", "SITx"}, ".hqx": {"TEXT", "SITx"}, ".jpg": {"JPEG", "ogle"},
	".jpeg": {"JPEG", "ogle"}, ".img": {"rohd", "ddsk"}, ".sea": {"APPL", "aust"}, ".mov": {"MooV", "TVOD"},
	".incomplete": {"HTft", "HTLC"},
}

// typeCreator is the extension table of the Hotline file types (lower-cased extension; default TEXT/TTXT).
func typeCreator(name string) (string, string) {
	if tc, ok := extTypes[strings.ToLower(filepath.Ext(name))]; ok {
		return tc[0], tc[1]
	}
	return "TEXT", "TTXT"
}

// hlTime: year(2) millis(2)=0 seconds-into-the-year(4), local time.
func hlTime(t time.Time) []byte {
	start := time.Date(t.Year(), time.January, 1, 0, 0, 0, 0, time.Local)
	b := be16(t.Year())
	b = append(b, 0, 0)
	return append(b, be32(int(t.Sub(start).Seconds()))...)
}

func (f *diskFile) path() string { return filepath.Join(f.Dir, f.Name) }

func (f *diskFile) write() error {
	if err := os.MkdirAll(f.Dir, 0755); err != nil {
		return err
	}
	if err := os.WriteFile(f.path(), f.Data, 0644); err != nil {
		return err
	}
	if f.Info != nil {
		if f.InfoRaw == nil {
			f.InfoRaw = f.Info.encode()
		}
		if err := os.WriteFile(filepath.Join(f.Dir, ".info_"+f.Name), f.InfoRaw, 0644); err != nil {
			return err
		}
	}
	if f.HasRsrc {
		if err := os.WriteFile(filepath.Join(f.Dir, ".rsrc_"+f.Name), f.Rsrc, 0644); err != nil {
			return err
		}
	}
	if !f.ModTime.IsZero() {
		os.Chtimes(f.path(), f.ModTime, f.ModTime)
	}
	return nil
}

// effInfo is the information fork a download must carry: the stored one, or the synthesised default.
func (f *diskFile) effInfo() infoSpec {
	if f.Info != nil {
		return *f.Info
	}
	mt, ty, cr := f.statDerived()
	return defaultInfoSpec([]byte(f.Name), mt, []byte(ty), []byte(cr))
}

// statDerived: the date and the type/creator codes the file wrapper derives from a successful Stat; when nothing
// can be stat'ed (dangling alias) the date stays zero and the codes are the default file type's.
func (f *diskFile) statDerived() ([]byte, string, string) {
	if f.Dangling {
		return make([]byte, 8), "TEXT", "TTXT"
	}
	ty, cr := typeCreator(f.Name)
	return hlTime(f.ModTime), ty, cr
}

func (f *diskFile) forkCount() int {
	if f.Info != nil {
		return 3
	}
	return 2
}

// oracleSpec renders the oracle's file spec: name size rsrc mtime type creator [0 | 1 + information fork].
func (f *diskFile) oracleSpec() string {
	mt, ty, cr := f.statDerived()
	rs := "-"
	if f.HasRsrc {
		rs = fmt.Sprint(len(f.Rsrc))
	}
	s := fmt.Sprintf("%s %d %s %s %s %s", hx([]byte(f.Name)), len(f.Data), rs, hx(mt), hx([]byte(ty)), hx([]byte(cr)))
	if f.Info != nil {
		return s + " 1 " + f.Info.oracleArgs()
	}
	return s + " 0"
}

// genData makes file contents: pseudo-random with occasional runs, never all equal, so that any shift shows.
func genData(r *RNG, n int) []byte {
	b := make([]byte, n)
	s := r.U64() | 1
	for i := 0; i < n; i += 8 {
		s ^= s << 13
		s ^= s >> 7
		s ^= s << 17
		for j := 0; j < 8 && i+j < n; j++ {
			b[i+j] = byte(s >> (8 * j))
		}
	}
	return b
}

var baseTime = time.Date(2021, time.March, 14, 1, 59, 26, 0, time.Local)

func randModTime(r *RNG) time.Time {
	return baseTime.Add(time.Duration(r.Intn(3*365*24*3600)) * time.Second)
}

// highBytes are Mac Roman codes the name generator draws from (é ü ñ ö å ß © ™ π … – “ ” ÿ Ä Ç ∑ ø œ ‰ Â ˇ † •).
var highBytes = []byte{0x8E, 0x9F, 0x96, 0x9A, 0x8C, 0xA7, 0xA9, 0xAA, 0xB9, 0xC9, 0xD0, 0xD2, 0xD3, 0xD8, 0x80, 0x82, 0xB7, 0xBF, 0xCF, 0xE4, 0xE5, 0xFF, 0xA0, 0xA5}

var extPool = []string{".txt", ".jpg", ".zip", "", "", ".dat", ".GIF", ".sit", ".tar.gz", ".Mov", ".pdf", ".hqx", "."}

// genReqName draws a file name as a client sends it (Mac Roman bytes): spaces, dots, non-ASCII, long names.
func genReqName(r *RNG, maxLen int) []byte {
	var b []byte
	n := 1 + r.Intn(12)
	if r.Chance(8) {
		n = 20 + r.Intn(60)
	}
	mode := r.Intn(5)
	for len(b) < n {
		switch {
		case mode == 0 || (mode >= 3 && r.Chance(60)):
			const al = "abcdefghijklmnopqrstuvwxyzABCDEFGHIJKLMNOPQRSTUVWXYZ0123456789"
			b = append(b, al[r.Intn(len(al))])
		case mode == 1:
			const al = "ab ._-()[]'&+,;=@#$%^!~{}"
			b = append(b, al[r.Intn(len(al))])
		default:
			b = append(b, highBytes[r.Intn(len(highBytes))])
		}
	}
	if r.Chance(10) {
		b = append([]byte{'.'}, b...)
	}
	b = append(b, extPool[r.Intn(len(extPool))]...)
	// a name must survive filepath.Join("/", name): no NUL, no slash, not "." / "..", no trailing ".incomplete"
	s := strings.Trim(string(b), " ")
	if s == "" || s == "." || s == ".." {
		s = "x" + s
	}
	if len(s) > maxLen {
		s = s[:maxLen]
	}
	for strings.HasSuffix(s, ".incomplete") {
		s = strings.TrimSuffix(s, ".incomplete") + "_"
	}
	return []byte(s)
}

// diskNameOf maps a request name to the on-disk name the server will use (Mac Roman → UTF-8 via ReadPath).
func diskNameOf(ts *TS, pathField, reqName []byte) (string, string, error) {
	full, err := hotline.ReadPath(ts.Root, pathField, reqName)
	if err != nil {
		return "", "", err
	}
	return filepath.Dir(full), filepath.Base(full), nil
}

func getField(t *hotline.Transaction, id [2]byte) ([]byte, bool) {
	for _, f := range t.Fields {
		if f.Type == id {
			return f.Data, true
		}
	}
	return nil, false
}

func replyCanon(t *hotline.Transaction) string {
	var sb strings.Builder
	for i, f := range t.Fields {
		if i > 0 {
			sb.WriteByte(' ')
		}
		fmt.Fprintf(&sb, "%d:%s", binary.BigEndian.Uint16(f.Type[:]), hx(f.Data))
	}
	return sb.String()
}

// listDir returns the sorted names in a directory with kind and size ("name F 12", "name D").
func listDir(dir string) []string {
	es, err := os.ReadDir(dir)
	if err != nil {
		return []string{"ERR " + err.Error()}
	}
	var out []string
	for _, e := range es {
		if e.IsDir() {
			out = append(out, e.Name()+" D")
			continue
		}
		fi, err := e.Info()
		if err != nil {
			continue
		}
		out = append(out, fmt.Sprintf("%s F %d", e.Name(), fi.Size()))
	}
	sort.Strings(out)
	return out
}

func bytesEq(a, b []byte) bool { return bytes.Equal(a, b) }

// firstDiff describes where two byte strings differ.
func firstDiff(a, b []byte) string {
	n := len(a)
	if len(b) < n {
		n = len(b)
	}
	for i := 0; i < n; i++ {
		if a[i] != b[i] {
			return fmt.Sprintf("first difference at byte %d (lengths %d vs %d)", i, len(a), len(b))
		}
	}
	return fmt.Sprintf("one is a prefix of the other (lengths %d vs %d)", len(a), len(b))
}

// compressZeros renders bytes in the oracle's `hex+z<N>+hex` form, hiding the given [from,to) regions (contents are not the oracle's business).
func hexzRegions(b []byte, regions [][2]int) string {
	if len(b) == 0 {
		return "-"
	}
	var parts []string
	pos := 0
	for _, rg := range regions {
		from, to := rg[0], rg[1]
		if from > len(b) {
			from = len(b)
		}
		if to > len(b) {
			to = len(b)
		}
		if to <= from {
			continue
		}
		if from > pos {
			parts = append(parts, hx(b[pos:from]))
		}
		parts = append(parts, fmt.Sprintf("z%d", to-from))
		pos = to
	}
	if pos < len(b) {
		parts = append(parts, hx(b[pos:]))
	}
	return strings.Join(parts, "+")
}

// ---------------------------------------------------------------- one download, judged

type dlRequestSpec struct {
	resume  bool // field 203 present
	k       int
	preview bool // field 204 present
}

// checkDownload requests one download through the real handlers and judges reply and stream.
func checkDownload(c *Case, ts *TS, set *transferSet, post *[]func(), cc *hotline.ClientConn, id uint32, f *diskFile, pathField []byte, rq dlRequestSpec) {
	size := len(f.Data)
	describe := func() {
		c.Note("file", filepath.Join(f.Dir, f.Name))
		c.Note("request_name_hex", hx(f.ReqName))
		c.Note("size", size)
		c.Note("info_fork", f.Info != nil)
		c.Note("rsrc_fork_len", map[bool]int{true: len(f.Rsrc), false: -1}[f.HasRsrc])
		c.Note("resume", rq.resume)
		c.Note("offset", rq.k)
		c.Note("preview", rq.preview)
	}
	viol := func(key, what string) { describe(); c.Violation(key, what) }
	fields := []hotline.Field{fld(hotline.FieldFileName, f.ReqName)}
	if pathField != nil {
		fields = append(fields, fld(hotline.FieldFilePath, pathField))
	}
	if rq.resume {
		fields = append(fields, fld(hotline.FieldFileResumeData, resumeDataBytes(rq.k)))
	}
	if rq.preview {
		fields = append(fields, fld(hotline.FieldFileTransferOptions, []byte{0, 2}))
	}
	res, _, pan := ts.Call(cc, mkTran(hotline.TranDownloadFile, id, fields...))
	if pan != nil {
		c.Note("panic", fmt.Sprint(pan))
		viol("download-request-panics", "HandleDownloadFile panicked on a well-formed request")
		return
	}
	if len(res) != 1 || res[0].ErrorCode != [4]byte{} {
		viol("download-request-refused", "a granted download request for an existing file got no reference number")
		return
	}
	reply := res[0]
	refB, ok1 := getField(&reply, hotline.FieldRefNum)
	f108, ok2 := getField(&reply, hotline.FieldTransferSize)
	f207, ok3 := getField(&reply, hotline.FieldFileSize)
	if !ok1 || !ok2 || !ok3 || len(refB) != 4 || len(f108) != 4 || len(f207) != 4 {
		c.Note("reply", replyCanon(&reply))
		viol("download-reply-fields", "the download reply lacks the reference number, transfer size or file size field")
		return
	}
	var ref [4]byte
	copy(ref[:], refB)
	xferSize := int(binary.BigEndian.Uint32(f108))
	fileSize := int(binary.BigEndian.Uint32(f207))
	kArg := "-"
	if rq.resume {
		kArg = fmt.Sprint(rq.k)
	}
	pv := "0"
	if rq.preview {
		pv = "1"
	}
	beyond := rq.k > size
	rem := size - rq.k
	if beyond {
		rem = 0
	}
	canon := fmt.Sprintf("%s|%d|%v|%d|%d|%s|%s", hx([]byte(f.Name)), size, f.Info != nil, len(f.Rsrc), len(f.InfoRaw), kArg, pv)

	// reply: model correspondence (reference layouts) and the property's clauses, judged directly
	describe()
	c.Corr("download-reply", replyCanon(&reply), c.AskS("dlreply", kArg, pv, hx(refB), f.oracleSpec()), true)
	if !beyond {
		if fileSize != rem {
			viol("reply-file-size", fmt.Sprintf("reply field 207 announces %d, the remaining data length is %d", fileSize, rem))
		}
	}

	// transfer connection
	conn := newDlgConn(preambleBytes(ref, 0), randSegs(c.R), nil)
	x := set.start(ref, conn)
	if !x.waitBody() {
		viol("transfer-handler-hangs", "the download transfer did not finish")
		return
	}
	stream := conn.Written()
	c.Dist(fmt.Sprintf("download/forks=%v,%v resume=%v preview=%v", f.Info != nil, f.HasRsrc, rq.resume, rq.preview))
	c.Dist("size/" + sizeBucket(size))
	if len(stream) > 0 {
		c.Nontrivial(canon)
	}

	// what must follow the data fork
	var wantTrailer []byte
	if !rq.resume {
		wantTrailer = append(wantTrailer, forkHeaderBytes("MACR", len(f.Rsrc))...)
	}
	wantTrailer = append(wantTrailer, f.Rsrc...)
	rl := len(f.Rsrc)

	var hdr, data, trailer []byte
	if rq.preview {
		if len(stream) < rem {
			if !beyond {
				viol("preview-short", fmt.Sprintf("preview: %d bytes sent, %d data bytes remain", len(stream), rem))
			}
			return
		}
		data, trailer = stream[:rem], stream[rem:]
		if !beyond {
			if xferSize != rem {
				viol("preview-transfer-size", fmt.Sprintf("preview: reply field 108 announces %d, the remaining data length is %d", xferSize, rem))
			}
		}
	} else {
		sp := splitFlattened(stream, rem)
		if !sp.OK {
			c.Note("stream", short(stream))
			viol("download-stream-unparseable", "the reference client cannot split the download stream: "+sp.Why)
			return
		}
		hdr, data, trailer = sp.Hdr, sp.Data, sp.Trailer
		eff := f.effInfo()
		// header consistency clauses
		if sp.InfoSize != len(sp.Info) || sp.InfoSize != len(eff.encode()) {
			viol("header-info-size", fmt.Sprintf("INFO size field %d, information fork is %d bytes", sp.InfoSize, len(eff.encode())))
		}
		if sp.NameSize != len(sp.Name) || !bytesEq(sp.Name, eff.Name) {
			c.Note("name_in_header", hx(sp.Name))
			c.Note("name_expected", hx(eff.Name))
			viol("header-name-size", fmt.Sprintf("name size field %d / name in the header differ from the file's name (%d bytes)", sp.NameSize, len(eff.Name)))
		}
		if sp.ForkCount != f.forkCount() {
			viol("header-fork-count", fmt.Sprintf("fork count %d, expected %d", sp.ForkCount, f.forkCount()))
		}
		if !beyond && !f.HasRsrc {
			if xferSize != len(hdr)+rem {
				viol("reply-transfer-size", fmt.Sprintf("no resource fork stored: reply field 108 announces %d, header (%d) + remaining data (%d) = %d", xferSize, len(hdr), rem, len(hdr)+rem))
			}
		}
		if !beyond {
			extra := 16
			if rq.resume {
				extra = 0
			}
			if len(stream) != xferSize+extra {
				viol("stream-length-vs-transfer-size", fmt.Sprintf("%d bytes sent, transfer size %d (+%d for the fork header)", len(stream), xferSize, extra))
			}
		}
	}
	if !beyond {
		if !bytesEq(data, f.Data[rq.k:]) {
			c.Note("diff", firstDiff(data, f.Data[rq.k:]))
			viol("download-data", fmt.Sprintf("the data part is not the file's bytes from offset %d to the end", rq.k))
		}
		if !bytesEq(trailer, wantTrailer) {
			c.Note("trailer", short(trailer))
			c.Note("trailer_expected", short(wantTrailer))
			viol("download-trailer", "the bytes after the data fork are not the MACR fork header (and the stored resource fork)")
		}
	}
	// model correspondence of the whole stream shape
	th := trailer
	rr := rl
	if rr > len(th) {
		rr = len(th)
	}
	implCanon := func(errFlag bool) string {
		return fmt.Sprintf("len=%d hdr=%s data=%d trailer=%s rsrc=%d err=%v", len(stream), hx(hdr), len(data), hx(th[:len(th)-rr]), rr, errFlag)
	}
	model := c.AskS("dlstream", kArg, pv, f.oracleSpec())
	if rr > 0 && !bytesEq(th[len(th)-rr:], f.Rsrc[len(f.Rsrc)-rr:]) && !beyond {
		viol("download-rsrc-bytes", "the resource fork bytes sent differ from the stored fork")
	}
	// the handler's return value arrives after its 3-second sleep: compare it at the end of the case
	*post = append(*post, func() {
		e, _ := x.waitReturn()
		describe()
		c.Corr("download-stream", implCanon(e != nil), model, true)
	})
	// the reference client of the theorems (splitDownload) against the harness's own splitter
	if !rq.preview && !beyond {
		regions := [][2]int{{len(hdr), len(hdr) + len(data)}}
		if rr > 0 {
			regions = append(regions, [2]int{len(stream) - rr, len(stream)})
		}
		got := c.AskS("dlsplit", hexzRegions(stream, regions), fmt.Sprint(fileSize))
		tz := append([]byte{}, trailer...)
		for i := len(tz) - rr; i < len(tz); i++ {
			tz[i] = 0
		}
		want := fmt.Sprintf("ok info=%s data=%d rest=%s", hx(hdr[40:len(hdr)-16]), len(data), hx(tz))
		c.Corr("reference-client-split", got, want, false)
	}
	c.Sample(map[string]any{"family": c.Fam, "size": size, "offset": rq.k, "resume": rq.resume, "preview": rq.preview, "stream_bytes": len(stream)})
}


func sizeBucket(n int) string {
	switch {
	case n == 0:
		return "0"
	case n < 256:
		return "<256"
	case n < 4096:
		return "<4K"
	case n < 65536:
		return "<64K"
	case n < 1<<20:
		return "<1M"
	default:
		return ">=1M"
	}
}
