//go:build c19

package main

// C19 — message board and agreement are served whole and lose no post.
//
// Families
//   post-format          sequential: post (103) / get (101) through the real handlers; text, notification, file
//   store-raw            the real FlatNews / Agreement driven call by call (Seek/Read/Write) against the raw model
//   board-concurrent     K goroutines run the real HandleGetMsgs / HandleTranOldPostNews at once; linearisability monitor
//   board-forced         the same through a gating store that holds one client inside its operation while the others start
//   agreement-concurrent real logins (handleNewConnection) and ReadAgreement calls at once, free and forced
//   post-fault           the persist step is made to fail (directory at MessageBoard.txt.tmp / failing store): acknowledged ⇒ on disk
//   board-reload         posters and readers through the real handlers while the operator's FlatNews.Reload loops: no post lost

import (
	"bytes"
	"encoding/binary"
	"fmt"
	"io"
	"os"
	"path/filepath"
	"sort"
	"strings"
	"sync"
	"sync/atomic"
	"time"

	"github.com/jhalter/mobius/hotline"
	"github.com/jhalter/mobius/internal/mobius"
)

// ---------------------------------------------------------------- small helpers

func c19Digest(b []byte) string { return fmt.Sprintf("%d/%d", len(b), fnv64(b)) }

func c19nl2cr(b []byte) []byte { return bytes.ReplaceAll(b, []byte("\n"), []byte("\r")) }

// c19Parts: the constant text around the three arguments of Sprintf(template+"\r", name, date, body), after "\n"→"\r".
// ok=false when the template does not have exactly three %s verbs (not generated here).
func c19Parts(template string, name, body []byte) (prefix, suffix []byte, ok bool) {
	ps := strings.Split(template+"\r", "%s")
	if len(ps) != 4 {
		return nil, nil, false
	}
	prefix = c19nl2cr([]byte(ps[0] + string(name) + ps[1]))
	suffix = c19nl2cr([]byte(ps[2] + string(body) + ps[3]))
	return prefix, suffix, true
}

// c19MatchPost reports whether b starts with a post by (name, body); it returns the post's length and its date text.
func c19MatchPost(b []byte, template, dateFmt string, name, body []byte) (n int, date string, ok bool) {
	prefix, suffix, pok := c19Parts(template, name, body)
	if !pok || !bytes.HasPrefix(b, prefix) {
		return 0, "", false
	}
	rest := b[len(prefix):]
	for d := 0; d <= 64 && d <= len(rest); d++ {
		if bytes.HasPrefix(rest[d:], suffix) {
			ds := string(rest[:d])
			if _, err := time.Parse(dateFmt, ds); err == nil {
				return len(prefix) + d + len(suffix), ds, true
			}
		}
	}
	return 0, "", false
}

func c19Template(cfg hotline.Config) (tmpl, dateFmt string) {
	tmpl, dateFmt = hotline.NewsTemplate, hotline.NewsDateFormat
	if cfg.NewsDelimiter != "" {
		tmpl = cfg.NewsDelimiter
	}
	if cfg.NewsDateFormat != "" {
		dateFmt = cfg.NewsDateFormat
	}
	return
}

// c19Text: printable board / agreement text without "From " at the start; `\n` appears only when asked for.
func c19Text(r *RNG, n int, newlines bool) []byte {
	b := make([]byte, n)
	const al = "abcdefghijklmnopqrstuvwxyz0123456789 .,;:-\r"
	for i := range b {
		b[i] = al[r.Intn(len(al))]
		if newlines && r.Intn(40) == 0 {
			b[i] = '\n'
		}
	}
	if n > 0 && b[0] == 'F' {
		b[0] = 'f'
	}
	return b
}

func c19BoardSize(r *RNG, max int) int {
	var n int
	if max >= 65535 && r.Chance(12) { // the last bytes a 16-bit field size can express
		return r.Pick(65531, 65532, 65533, 65534, 65535)
	}
	switch r.Intn(10) {
	case 0:
		n = 0
	case 1:
		n = r.Pick(1, 2, 100)
	case 2:
		n = r.Pick(511, 512, 513, 896, 1024, 1025)
	case 3, 4:
		n = 513 + r.Intn(4000)
	case 5, 6:
		n = 4096 + r.Intn(28000)
	case 7:
		n = r.Pick(32767, 32768, 32769, 40000)
	default:
		n = r.Intn(max + 1)
	}
	if n > max {
		n = max
	}
	return n
}

func c19Handler(ts *TS, ty hotline.TranType) hotline.HandlerFunc { return ts.Srv.VerifHandlers()[ty] }

// ---------------------------------------------------------------- gating store

type gateEv struct {
	Kind byte // 's' Seek, 'r' Read, 'w' Write
	Arg  int  // offset / buffer size / payload length
	Data []byte
	EOF  bool
	Intr bool // the call arrived while another client was being held inside its operation
}

// gate wraps the server's MessageBoard / Agreement (interface-typed fields): it delegates to the real store, records
// every call, and can hold the caller after its k-th call (still inside the server operation) until released.
type gate struct {
	rd         io.ReadSeeker
	wr         io.Writer
	mu         sync.Mutex
	log        []gateEv
	pauseAfter map[int]bool
	failWrites atomic.Bool // fault injection: Write reports an error without reaching the real store
	holding    bool
	held       chan int
	release    chan struct{}
	intrSig    chan struct{}
}

func newGate(rd io.ReadSeeker, wr io.Writer, pauses ...int) *gate {
	g := &gate{rd: rd, wr: wr, pauseAfter: map[int]bool{}, held: make(chan int, 64), release: make(chan struct{}), intrSig: make(chan struct{}, 1)}
	for _, p := range pauses {
		g.pauseAfter[p] = true
	}
	return g
}

func (g *gate) record(ev gateEv) (hold bool, k int) {
	ev.Intr = g.holding
	if ev.Intr {
		select {
		case g.intrSig <- struct{}{}:
		default:
		}
	}
	g.log = append(g.log, ev)
	k = len(g.log)
	if g.pauseAfter[k] && !g.holding {
		g.holding = true
		hold = true
	}
	return
}

func (g *gate) maybeHold(hold bool, k int) {
	if !hold {
		return
	}
	g.held <- k
	<-g.release
	g.mu.Lock()
	g.holding = false
	g.mu.Unlock()
}

func (g *gate) Seek(off int64, whence int) (int64, error) {
	g.mu.Lock()
	n, err := g.rd.Seek(off, whence)
	hold, k := g.record(gateEv{Kind: 's', Arg: int(off)})
	g.mu.Unlock()
	g.maybeHold(hold, k)
	return n, err
}

func (g *gate) Read(p []byte) (int, error) {
	g.mu.Lock()
	n, err := g.rd.Read(p)
	hold, k := g.record(gateEv{Kind: 'r', Arg: len(p), Data: append([]byte{}, p[:n]...), EOF: err == io.EOF})
	g.mu.Unlock()
	g.maybeHold(hold, k)
	return n, err
}

func (g *gate) Write(p []byte) (int, error) {
	if g.failWrites.Load() {
		return 0, fmt.Errorf("injected fault: no space left on device")
	}
	g.mu.Lock()
	n, err := g.wr.Write(p)
	hold, k := g.record(gateEv{Kind: 'w', Arg: len(p), Data: append([]byte{}, p...)})
	g.mu.Unlock()
	g.maybeHold(hold, k)
	return n, err
}

// Disarm removes the remaining hold points (used before the harness itself reads the quiescent state).
func (g *gate) Disarm() {
	g.mu.Lock()
	g.pauseAfter = map[int]bool{}
	g.mu.Unlock()
}

func (g *gate) Log() []gateEv {
	g.mu.Lock()
	defer g.mu.Unlock()
	return append([]gateEv{}, g.log...)
}

// c19Blocks checks that the recorded calls are a sequence of whole operations — `Seek(0) Read* Read→EOF` or `Write` —
// i.e. that no client's call fell between another client's Seek and its EOF.
func c19Blocks(log []gateEv) (reads int, why string) {
	open := false
	for i, e := range log {
		if e.Intr {
			return reads, fmt.Sprintf("call %d (%c) was made while another client was held inside its read/post operation", i+1, e.Kind)
		}
		switch e.Kind {
		case 's':
			if open {
				return reads, fmt.Sprintf("call %d: Seek by a second client before the previous reader reached EOF", i+1)
			}
			if e.Arg != 0 {
				return reads, fmt.Sprintf("call %d: Seek to %d", i+1, e.Arg)
			}
			open = true
		case 'r':
			if !open {
				return reads, fmt.Sprintf("call %d: Read without a preceding Seek(0) of the same operation", i+1)
			}
			if e.EOF {
				open = false
				reads++
			}
		case 'w':
			if open {
				return reads, fmt.Sprintf("call %d: Write in the middle of another client's read", i+1)
			}
		}
	}
	if open {
		return reads, "a reader stopped before EOF"
	}
	return reads, ""
}

func c19RawLine(init []byte, cursor int, log []gateEv) (line string, implObs string) {
	var sb, ob strings.Builder
	fmt.Fprintf(&sb, "c19raw %s %d", hx(init), cursor)
	for _, e := range log {
		switch e.Kind {
		case 's':
			fmt.Fprintf(&sb, " 0:s:%d", e.Arg)
			fmt.Fprintf(&ob, "%s,0 ", c19Digest(nil))
		case 'r':
			fmt.Fprintf(&sb, " 0:r:%d", e.Arg)
			eof := 0
			if e.EOF {
				eof = 1
			}
			fmt.Fprintf(&ob, "%s,%d ", c19Digest(e.Data), eof)
		case 'w':
			fmt.Fprintf(&sb, " 0:w:%s", hx(e.Data))
			fmt.Fprintf(&ob, "%s,0 ", c19Digest(nil))
		}
	}
	return sb.String(), ob.String()
}

// ---------------------------------------------------------------- linearisability monitor

type c19Op struct {
	Client    int
	Post      bool
	Name      []byte
	Body      []byte
	inv, resp int64
	data      []byte // reader: data field of the reply
	replyOK   bool
	fileAtAck []byte
	fileErr   error
	text      []byte // post: its text on the board (derived from the final board)
	pos       int    // post: 1-based position in the linearisation; reader: number of posts it saw
}

func (o *c19Op) String() string {
	if o.Post {
		return fmt.Sprintf("c%d:post(%d)", o.Client, len(o.Body))
	}
	return fmt.Sprintf("c%d:read", o.Client)
}

// c19Linearise judges one run: final board = all posts once, newest first, over the initial text; every reader saw the
// board as of one point consistent with real time; the file held the board when each post was acknowledged.
// It returns the posts in linearisation order (oldest first) when the final board is well formed.
func c19Linearise(c *Case, tmpl, dateFmt string, initial, final []byte, ops []*c19Op) ([]*c19Op, bool) {
	var pending []*c19Op
	for _, o := range ops {
		if o.Post {
			pending = append(pending, o)
		}
	}
	m := len(pending)
	var newestFirst []*c19Op
	pos := 0
	for len(pending) > 0 {
		found := -1
		for i, p := range pending {
			if n, _, ok := c19MatchPost(final[pos:], tmpl, dateFmt, p.Name, p.Body); ok {
				p.text = final[pos : pos+n]
				found = i
				break
			}
		}
		if found < 0 {
			c.Note("final_board", short(final))
			c.Note("unparsed_at", pos)
			c.Note("posts_missing", fmt.Sprint(pending))
			c.Violation("post-lost-or-garbled", fmt.Sprintf("after all operations the board does not consist of the %d posts made (each once, newest first, in post format) followed by the initial text: no remaining post matches at offset %d", m, pos))
			return nil, false
		}
		p := pending[found]
		pos += len(p.text)
		newestFirst = append(newestFirst, p)
		pending = append(pending[:found], pending[found+1:]...)
	}
	if !bytes.Equal(final[pos:], initial) {
		c.Note("final_board", short(final))
		c.Note("tail_len", len(final)-pos)
		c.Note("initial_len", len(initial))
		c.Violation("board-tail-differs", "after all posts were accounted for, the rest of the board is not the initial text (a post is duplicated or the old text was damaged)")
		return nil, false
	}
	order := make([]*c19Op, m)
	for i, p := range newestFirst {
		p.pos = m - i
		order[m-1-i] = p
	}
	// snapshot j = final[off[j]:]
	off := make([]int, m+1)
	off[m] = 0
	for j := m; j >= 1; j-- {
		off[j-1] = off[j] + len(order[j-1].text)
	}
	snapIdx := func(b []byte) int {
		for j := 0; j <= m; j++ {
			if len(final)-off[j] == len(b) {
				if bytes.Equal(final[off[j]:], b) {
					return j
				}
				return -1
			}
		}
		return -1
	}
	ok := true
	for _, o := range ops {
		if o.Post {
			if !o.replyOK {
				c.Violation("post-not-acknowledged", "a post by a user allowed to post got no plain reply")
				ok = false
			}
			if o.fileErr != nil {
				c.Note("file_error", o.fileErr.Error())
				c.Violation("file-unreadable-at-ack", "MessageBoard.txt could not be read when the post was acknowledged")
				ok = false
				continue
			}
			j := snapIdx(o.fileAtAck)
			if j < 0 || j < o.pos {
				c.Note("op", o.String())
				c.Note("file_at_ack", short(o.fileAtAck))
				c.Note("post_position", o.pos)
				c.Note("file_snapshot", j)
				c.Violation("file-behind-ack", "when a post was acknowledged MessageBoard.txt did not hold a complete board containing that post")
				ok = false
			}
			continue
		}
		j := snapIdx(o.data)
		if j < 0 {
			c.Note("op", o.String())
			c.Note("reader_got", short(o.data))
			c.Note("reader_got_len", len(o.data))
			var lens []int
			for k := 0; k <= m; k++ {
				lens = append(lens, len(final)-off[k])
			}
			c.Note("snapshot_lengths", lens)
			c.Violation("reader-not-snapshot", "a get-messages reply is not the board as of any point of the run (duplicated, truncated, empty or mixed text)")
			ok = false
			continue
		}
		o.pos = j
		for _, p := range order {
			if p.resp < o.inv && p.pos > j {
				c.Note("op", o.String())
				c.Violation("reader-misses-acked-post", "a get-messages request issued after a post had been acknowledged did not contain that post")
				ok = false
			}
			if p.inv > o.resp && p.pos <= j {
				c.Violation("reader-sees-future-post", "a get-messages reply contains a post that was submitted only after the reply had been returned")
				ok = false
			}
		}
	}
	for _, p := range order {
		for _, q := range order {
			if p.resp < q.inv && p.pos > q.pos {
				c.Violation("post-order", "a post submitted after another had been acknowledged ended up below it")
				ok = false
			}
		}
	}
	return order, ok
}

// c19ModelSchedule renders the linearisation the run took (readers at their snapshot, posts in board order) for the oracle.
func c19ModelSchedule(c *Case, initial, final, file []byte, ops []*c19Op, order []*c19Op) {
	var line strings.Builder
	var impl []string
	fmt.Fprintf(&line, "c19run %s", hx(initial))
	sizes := fmt.Sprintf("r:%d,%d", 1+c.R.Intn(700), 1+c.R.Intn(5000))
	for j := 0; j <= len(order); j++ {
		for _, o := range ops {
			if !o.Post && o.pos == j {
				line.WriteString(" " + sizes)
				impl = append(impl, c19Digest(o.data))
			}
		}
		if j < len(order) {
			line.WriteString(" p:" + hx(order[j].text))
			impl = append(impl, "-")
		}
	}
	got := strings.Join(impl, " ") + " | " + c19Digest(final) + " " + c19Digest(file)
	want := c.O.Ask(line.String())
	c.Corr("runOps-linearised", got, want, false)
}

type c19Plan struct {
	initial []byte
	ops     []*c19Op
	names   [][]byte
}

// c19MakePlan: k clients, 1..perClient operations each; posts carry a unique token; total size stays under the field limit.
func c19MakePlan(r *RNG, k, perClient, maxBoard int, postPct int) c19Plan {
	var p c19Plan
	budget := 65000
	for i := 0; i < k; i++ {
		p.names = append(p.names, []byte(fmt.Sprintf("u%d-%s", i, r.Name(8))))
	}
	type slot struct{ client, seq int }
	var slots []slot
	for i := 0; i < k; i++ {
		n := 1 + r.Intn(perClient)
		for s := 0; s < n; s++ {
			slots = append(slots, slot{i, s})
		}
	}
	postBytes := 0
	for _, s := range slots {
		o := &c19Op{Client: s.client, Name: p.names[s.client]}
		if r.Chance(postPct) {
			o.Post = true
			bl := r.Pick(0, 1, 10, 40, 200, 600)
			if postBytes+bl+200 > budget/2 {
				bl = 0
			}
			body := append([]byte(fmt.Sprintf("[c%d-%d]", s.client, s.seq)), c19Text(r, bl, true)...)
			o.Body = body
			postBytes += len(body) + 120
		}
		p.ops = append(p.ops, o)
	}
	if maxBoard > budget-postBytes {
		maxBoard = budget - postBytes
	}
	p.initial = c19Text(r, c19BoardSize(r, maxBoard), false)
	return p
}

var c19Tick atomic.Int64

// c19AnnounceWait: how long to wait for notifications still being appended by the outbox collector.  After a first
// failure the wait is cut (a run against code that does not announce posts must not take hours).
var c19AnnounceFailed atomic.Bool

func c19AnnounceWait() time.Duration {
	if c19AnnounceFailed.Load() {
		return 300 * time.Millisecond
	}
	return 10 * time.Second
}

// c19RunOp executes one operation through the real handler.
func c19RunOp(ts *TS, cc *hotline.ClientConn, o *c19Op, id uint32) {
	o.inv = c19Tick.Add(1)
	if o.Post {
		res := c19Handler(ts, hotline.TranOldPostNews)(cc, &hotline.Transaction{Type: hotline.TranOldPostNews, ID: [4]byte{0, 0, byte(id >> 8), byte(id)},
			Fields: []hotline.Field{hotline.NewField(hotline.FieldData, o.Body)}})
		o.replyOK = len(res) == 1 && res[0].IsReply == 1 && res[0].ErrorCode == [4]byte{} && len(res[0].Fields) == 0
		o.fileAtAck, o.fileErr = os.ReadFile(filepath.Join(ts.Cfg, "MessageBoard.txt"))
	} else {
		res := c19Handler(ts, hotline.TranGetMsgs)(cc, &hotline.Transaction{Type: hotline.TranGetMsgs, ID: [4]byte{0, 0, byte(id >> 8), byte(id)}})
		if len(res) == 1 && res[0].IsReply == 1 && len(res[0].Fields) == 1 && res[0].Fields[0].Type == hotline.FieldData {
			o.data = res[0].Fields[0].Data
			o.replyOK = true
		}
	}
	o.resp = c19Tick.Add(1)
}

// c19CheckNotifications: every connected client got each post exactly once as transaction 102 with the post in field 101.
func c19CheckNotifications(c *Case, ts *TS, clients []*hotline.ClientConn, order []*c19Op) {
	want := len(clients) * len(order)
	var all []hotline.Transaction
	if want > 0 && !waitFor(c19AnnounceWait(), func() bool {
		all = append(all, ts.TakeOutbox()...)
		n := 0
		for _, t := range all {
			if t.Type == hotline.TranNewMsg {
				n++
			}
		}
		return n >= want
	}) {
		c19AnnounceFailed.Store(true)
	}
	time.Sleep(2 * time.Millisecond)
	all = append(all, ts.TakeOutbox()...)
	per := map[[2]byte][]string{}
	for _, t := range all {
		if t.Type != hotline.TranNewMsg {
			continue
		}
		if len(t.Fields) != 1 || t.Fields[0].Type != hotline.FieldData || t.IsReply != 0 {
			c.Note("notification", tranCanonTo(t))
			c.Violation("notification-malformed", "a new-message notification (102) does not carry exactly the post in field 101")
			return
		}
		per[t.ClientID] = append(per[t.ClientID], string(t.Fields[0].Data))
	}
	var texts []string
	for _, p := range order {
		texts = append(texts, string(p.text))
	}
	sort.Strings(texts)
	for _, cc := range clients {
		got := per[cc.ID]
		sort.Strings(got)
		if strings.Join(got, "\x00") != strings.Join(texts, "\x00") {
			c.Note("client", binary.BigEndian.Uint16(cc.ID[:]))
			c.Note("notifications_received", len(got))
			c.Note("posts_made", len(texts))
			c.Violation("post-not-announced", "a connected client did not receive exactly one new-message notification (102) per post, carrying the post text")
			return
		}
	}
}

func c19Overlap(ops []*c19Op) bool {
	for i, a := range ops {
		for _, b := range ops[i+1:] {
			if a.inv < b.resp && b.inv < a.resp {
				return true
			}
		}
	}
	return false
}

func c19PlanCanon(p c19Plan) string {
	var sb strings.Builder
	fmt.Fprintf(&sb, "%d|", len(p.initial))
	for _, o := range p.ops {
		fmt.Fprintf(&sb, "%d%v%d,", o.Client, o.Post, len(o.Body))
	}
	return sb.String()
}

// ---------------------------------------------------------------- registration

func init() {
	props["C19"] = func(x *Ctx) {
		x.rule = "post-format: random template/date format (default and custom), names and bodies with \\n, \\r, NUL, high bytes, 1-4 connected clients, 1-4 posts interleaved with gets, board up to the 64 KiB field limit (12% of the cases: exactly 65531..65535 bytes, served whole); distinct = (config, name, body, board size). " +
			"store-raw: random Seek/Read/Write scripts on the real FlatNews/Agreement; distinct = script. " +
			"board-concurrent / board-forced / agreement-concurrent: 2-8 (thorough: up to 48) clients with 1-3 operations each on boards of 0..64 KiB (biased to sizes over 512 where io.ReadAll needs several Reads), run at once through the real handlers; forced = one client is held inside its operation by a gating store after its 1st..4th store call while the others start; " +
			"post-fault: 1-3 clients; the persist step fails for a chosen post either because a directory sits at MessageBoard.txt.tmp (real FlatNews.Write error path) or because a wrapping store's Write fails; before and after it posts succeed; distinct = (fault kind, position, body, board size). board-reload: 2-4 posters x 2-4 posts and 0-2 readers through the real handlers while 1-3 goroutines loop (*FlatNews).Reload on boards of 8..60 KiB; non-trivial = at least one reload completed while a post was in flight. " +
			"non-trivial = at least two operations overlapped in real time (measured with a logical clock) resp. a hold took place with other clients started; distinct = (board size, operation plan, hold point)"
		x.assume = []string{
			"each server-level operation is one critical section: tied to the source by the lock_discipline / critical_sections / no_access_outside_critical_sections obligations over regenerated facts, and observed by the gating store (no call of another client between a Seek and its EOF)",
			"io.ReadAll buffer sizes are inputs of the model (recorded from the real run)",
			"operator reload (FlatNews.Reload) is modelled as one step under the store's lock (obligation store_methods_locked) and run concurrently with posters and readers in the board-reload family; Agreement.Reload with a CHANGED file while clients read is not covered",
		}
		thor := x.Tier == "thorough"

		x.Add(&Family{Name: "post-format", Quick: 300, Thor: 4000, Run: func(c *Case) { c19PostFormat(c) }})
		x.Add(&Family{Name: "store-raw", Quick: 1500, Thor: 20000, Run: func(c *Case) { c19StoreRaw(c) }})
		x.Add(&Family{Name: "board-forced", Quick: 350, Thor: 3000, Run: func(c *Case) {
			k := 2 + c.R.Intn(3)
			pauses := []int{1 + c.R.Intn(4)}
			if c.R.Chance(30) {
				pauses = append(pauses, pauses[0]+1+c.R.Intn(6))
			}
			c19BoardRun(c, k, pauses)
		}})
		x.Add(&Family{Name: "board-concurrent", Quick: 400, Thor: 3500, Run: func(c *Case) {
			k := 2 + c.R.Intn(7)
			if thor && c.R.Chance(30) {
				k = 8 + c.R.Intn(41)
			}
			c19BoardRun(c, k, nil)
		}})
		x.Add(&Family{Name: "agreement-concurrent", Quick: 200, Thor: 2000, Run: func(c *Case) { c19Agreement(c, thor) }})
		x.Add(&Family{Name: "post-fault", Quick: 250, Thor: 4000, Run: func(c *Case) { c19PostFault(c) }})
		x.Add(&Family{Name: "board-reload", Quick: 120, Thor: 1500, Run: func(c *Case) { c19BoardReload(c, thor) }})
		for _, f := range c19ExtraFamilies { // families registered by the other c19_*.go files
			f(x)
		}
		if only := os.Getenv("VERIF_ONLY_FAMILY"); only != "" { // development aid: run one family
			var keep []*Family
			for _, f := range x.families {
				if f.Name == only {
					keep = append(keep, f)
				}
			}
			x.families = keep
		}
	}
}

var c19ExtraFamilies []func(x *Ctx)

// ---------------------------------------------------------------- post-format

func c19PostFormat(c *Case) {
	r := c.R
	initial := c19Text(r, c19BoardSize(r, 60000), r.Chance(30))
	edge := r.Chance(12) // a board that fills the 16-bit field to its last bytes: served whole, no room for a post
	if edge {
		initial = c19Text(r, r.Pick(65531, 65532, 65533, 65534, 65535), false)
	}
	ts, err := newTS(TSOpt{Direct: true, Board: string(initial)})
	if err != nil {
		panic(err)
	}
	defer ts.Close()
	switch r.Intn(4) {
	case 1:
		ts.Srv.Config.NewsDateFormat = "2006-01-02 15:04:05"
	case 2:
		ts.Srv.Config.NewsDateFormat = "Mon Jan _2 3:04PM 2006"
	}
	switch r.Intn(4) {
	case 1:
		ts.Srv.Config.NewsDelimiter = "%s wrote at %s:\n%s\n--"
	case 2:
		ts.Srv.Config.NewsDelimiter = "<%s|%s>%s"
	}
	tmpl, dateFmt := c19Template(ts.Srv.Config)
	c.Note("template", tmpl)
	c.Note("date_format", dateFmt)
	nClients := 1 + r.Intn(4)
	var clients []*hotline.ClientConn
	for i := 0; i < nClients; i++ {
		var name []byte
		switch r.Intn(4) {
		case 0:
			name = r.Text(r.Intn(20))
		default:
			name = []byte(r.Name(12))
		}
		cc, _ := ts.DirectClient("admin", name, fmt.Sprintf("10.0.0.%d:1000", i+1))
		clients = append(clients, cc)
	}
	filePath := filepath.Join(ts.Cfg, "MessageBoard.txt")
	get := func(cc *hotline.ClientConn) ([]byte, bool) {
		res, _, p := ts.Call(cc, mkTran(hotline.TranGetMsgs, 7))
		if p != nil || len(res) != 1 || res[0].IsReply != 1 || len(res[0].Fields) != 1 || res[0].Fields[0].Type != hotline.FieldData {
			return nil, false
		}
		return res[0].Fields[0].Data, true
	}
	board, ok := get(clients[0])
	if !ok {
		c.Violation("get-messages-reply", "get-messages did not return one reply with the data field")
		return
	}
	wantInit := c19nl2cr(initial)
	if !bytes.Equal(board, wantInit) {
		c.Note("got", short(board))
		c.Note("want", short(wantInit))
		c.Violation("board-not-whole", "get-messages does not return the complete board text")
		return
	}
	nPosts := 1 + r.Intn(4)
	if edge {
		nPosts = 0
		c.Nontrivial(fmt.Sprintf("edge|%d", len(initial)))
		c.Dist("post-format/board=65531..65535")
	}
	for i := 0; i < nPosts; i++ {
		cc := clients[r.Intn(len(clients))]
		bl := r.Pick(0, 1, 5, 30, 200, 1500)
		if len(board)+bl+400 > 65000 {
			bl = 0
		}
		var body []byte
		if r.Chance(60) {
			body = r.Text(bl)
		} else {
			body = c19Text(r, bl, true)
		}
		c.Note("poster_name", hx(cc.UserName))
		c.Note("body", short(body))
		c.Note("board_len_before", len(board))
		res, queued, p := ts.Call(cc, mkTran(hotline.TranOldPostNews, uint32(100+i), fld(hotline.FieldData, body)))
		fileNow, ferr := os.ReadFile(filePath)
		// (the outbox collector may still be appending the last one: wait for it)
		if !waitFor(c19AnnounceWait(), func() bool {
			n := 0
			for _, t := range queued {
				if t.Type == hotline.TranNewMsg {
					n++
				}
			}
			if n >= len(clients) {
				return true
			}
			queued = append(queued, ts.TakeOutbox()...)
			return false
		}) {
			c19AnnounceFailed.Store(true)
		}
		if p != nil {
			c.Note("panic", fmt.Sprint(p))
			c.Violation("post-panics", "posting to the message board panicked")
			return
		}
		if len(res) != 1 || res[0].IsReply != 1 || res[0].ErrorCode != [4]byte{} || binary.BigEndian.Uint32(res[0].ID[:]) != uint32(100+i) {
			c.Violation("post-not-acknowledged", "a post by a user allowed to post got no plain reply")
			return
		}
		after, ok := get(clients[r.Intn(len(clients))])
		if !ok {
			c.Violation("get-messages-reply", "get-messages did not return one reply with the data field")
			return
		}
		// newest first, old text intact
		if len(after) < len(board) || !bytes.Equal(after[len(after)-len(board):], board) {
			c.Note("after", short(after))
			c.Violation("post-not-prepended", "after a post the board is not <new post> followed by the previous board (old text damaged, or the post was put elsewhere)")
			return
		}
		post := after[:len(after)-len(board)]
		n, date, mok := c19MatchPost(post, tmpl, dateFmt, cc.UserName, body)
		if !mok || n != len(post) {
			c.Note("post_text", short(post))
			c.Violation("post-format", "the text put on the board is not the post template filled with the poster's name, a date in the configured format and the body, with line feeds turned into carriage returns")
			return
		}
		if bytes.IndexByte(post, '\n') >= 0 {
			c.Violation("post-format", "the post text contains a line feed")
			return
		}
		want := c.Ask("c19post", []byte(tmpl), cc.UserName, []byte(date), body)
		c.Corr("formatPost", hx(post), want, true)
		// on disk when acknowledged
		if ferr != nil || !bytes.Equal(fileNow, after) {
			c.Note("file", short(fileNow))
			c.Note("board", short(after))
			c.Violation("file-behind-ack", "when the post was acknowledged MessageBoard.txt did not equal the board")
			return
		}
		// announced to every connected client, once
		per := map[[2]byte]int{}
		for _, t := range queued {
			if t.Type != hotline.TranNewMsg {
				continue
			}
			if t.IsReply != 0 || len(t.Fields) != 1 || t.Fields[0].Type != hotline.FieldData || !bytes.Equal(t.Fields[0].Data, post) {
				c.Note("notification", clip(tranCanonTo(t)))
				c.Violation("notification-malformed", "a new-message notification (102) does not carry exactly the post in field 101")
				return
			}
			per[t.ClientID]++
		}
		for _, k := range clients {
			if per[k.ID] != 1 {
				c.Note("client", binary.BigEndian.Uint16(k.ID[:]))
				c.Note("count", per[k.ID])
				c.Violation("post-not-announced", "a connected client did not receive exactly one new-message notification (102) for the post")
				return
			}
		}
		if len(per) != len(clients) {
			c.Violation("post-not-announced", "a new-message notification went to an id that is not a connected client")
			return
		}
		c.Nontrivial(fmt.Sprintf("%s|%s|%x|%x|%d", tmpl, dateFmt, cc.UserName, body, len(board)))
		c.Dist(fmt.Sprintf("post-format/board<%d", 1<<(bitsLen(len(board)))))
		board = after
	}
	// model: the board is the posts over the initial text; a restart loads the same text
	re, err := mobius.NewFlatNews(filePath)
	if err != nil {
		c.Violation("board-reload", "MessageBoard.txt cannot be loaded after posts: "+err.Error())
		return
	}
	re.Seek(0, 0)
	reb, _ := io.ReadAll(re)
	if !bytes.Equal(reb, board) {
		c.Note("reloaded", short(reb))
		c.Violation("board-reload", "after a restart the board differs from the board that was being served")
	}
	c.Sample(map[string]any{"family": "post-format", "posts": nPosts, "clients": nClients, "board": len(board), "template": tmpl})
}

func bitsLen(n int) int {
	k := 0
	for n > 0 {
		k++
		n >>= 1
	}
	return k
}

// ---------------------------------------------------------------- store-raw

func c19StoreRaw(c *Case) {
	r := c.R
	dir, err := os.MkdirTemp("/var/tmp", "mobius-verif-c19-")
	if err != nil {
		panic(err)
	}
	defer os.RemoveAll(dir)
	init := c19Text(r, r.Pick(0, 1, 5, 40, 600, 3000), false)
	agreement := r.Chance(30)
	var rd io.ReadSeeker
	var wr io.Writer
	path := filepath.Join(dir, "MessageBoard.txt")
	if agreement {
		path = filepath.Join(dir, "Agreement.txt")
		os.WriteFile(path, init, 0644)
		a, err := mobius.NewAgreement(dir, "\r")
		if err != nil {
			panic(err)
		}
		rd = a
	} else {
		os.WriteFile(path, init, 0644)
		f, err := mobius.NewFlatNews(path)
		if err != nil {
			panic(err)
		}
		rd, wr = f, f
	}
	g := newGate(rd, wr)
	n := 1 + r.Intn(14)
	size := len(init)
	for i := 0; i < n; i++ {
		switch k := r.Intn(10); {
		case k < 2:
			g.Seek(int64(r.Pick(0, 0, 0, 1, size/2, size, size+3)), 0)
		case k < 8 || wr == nil:
			g.Read(make([]byte, r.Pick(0, 1, 2, 7, 512, 384, 4096, size+1)))
		default:
			p := c19Text(r, r.Pick(1, 3, 50, 700), false)
			g.Write(p)
			size += len(p)
		}
	}
	log := g.Log()
	// final state: what an uncontended reader gets, and the file
	rd.Seek(0, 0)
	final, _ := io.ReadAll(rd)
	file, _ := os.ReadFile(path)
	line, impl := c19RawLine(init, 0, log)
	fileDigest := c19Digest(file)
	if agreement {
		fileDigest = c19Digest(init) // never written
	}
	impl = impl + "| " + c19Digest(final) + " " + fileDigest
	want := c.O.Ask(line)
	c.Note("script", strings.TrimPrefix(line, "c19raw "+hx(init)+" "))
	c.Corr("rawStep", impl, want, false)
	c.Nontrivial(line)
	c.Dist(map[bool]string{true: "store-raw/agreement", false: "store-raw/board"}[agreement])
}

// ---------------------------------------------------------------- board-concurrent / board-forced

func c19BoardRun(c *Case, k int, pauses []int) {
	r := c.R
	plan := c19MakePlan(r, k, 3, 64000, 45)
	if pauses != nil && len(plan.ops) < 2 {
		plan.ops = append(plan.ops, &c19Op{Client: 0, Name: plan.names[0]})
	}
	ts, err := newTS(TSOpt{Direct: true, Board: string(plan.initial)})
	if err != nil {
		panic(err)
	}
	defer ts.Close()
	if r.Chance(25) {
		ts.Srv.Config.NewsDateFormat = "2006-01-02 15:04:05"
	}
	tmpl, dateFmt := c19Template(ts.Srv.Config)
	g := newGate(ts.Board, ts.Board, pauses...)
	ts.Srv.MessageBoard = g
	var clients []*hotline.ClientConn
	for i := 0; i < k; i++ {
		cc, _ := ts.DirectClient("admin", plan.names[i], fmt.Sprintf("10.0.%d.%d:2000", i/250, i%250+1))
		clients = append(clients, cc)
	}
	c.Note("initial_len", len(plan.initial))
	c.Note("plan", fmt.Sprint(plan.ops))
	c.Note("pauses", pauses)

	// per client: its operations in order
	perClient := make([][]*c19Op, k)
	for _, o := range plan.ops {
		perClient[o.Client] = append(perClient[o.Client], o)
	}
	var wg sync.WaitGroup
	runClient := func(i int, start <-chan struct{}) {
		defer wg.Done()
		if start != nil {
			<-start
		}
		for j, o := range perClient[i] {
			c19RunOp(ts, clients[i], o, uint32(i*16+j))
		}
	}
	heldSeen := false
	if pauses == nil {
		start := make(chan struct{})
		for i := 0; i < k; i++ {
			wg.Add(1)
			go runClient(i, start)
		}
		close(start)
		wg.Wait()
	} else {
		// the first client with an operation starts alone; when it is held inside its operation (or finishes
		// without reaching the hold point) the others start; every hold lasts until another client's call
		// reaches the store or a grace period passes
		first := plan.ops[0].Client
		firstDone := make(chan struct{})
		wg.Add(1)
		go func() {
			runClient(first, nil)
			close(firstDone)
		}()
		allDone := make(chan struct{})
		launched := false
		launch := func() {
			if launched {
				return
			}
			launched = true
			for i := 0; i < k; i++ {
				if i != first {
					wg.Add(1)
					go runClient(i, nil)
				}
			}
			go func() { wg.Wait(); close(allDone) }()
		}
		grace := 25 * time.Millisecond
		for done := false; !done; {
			select {
			case <-g.held:
				heldSeen = true
				launch()
				select {
				case <-g.intrSig:
				case <-time.After(grace):
				}
				g.release <- struct{}{}
			case <-firstDone:
				firstDone = nil
				launch()
			case <-allDone:
				done = true
			}
		}
	}

	// quiescent state
	g.Disarm()
	fin := &c19Op{}
	c19RunOp(ts, clients[0], fin, 9999)
	final := fin.data
	file, _ := os.ReadFile(filepath.Join(ts.Cfg, "MessageBoard.txt"))
	if !fin.replyOK {
		c.Violation("get-messages-reply", "get-messages did not return one reply with the data field")
		return
	}
	log := g.Log()
	if _, why := c19Blocks(log); why != "" {
		var ks []string
		for _, e := range log {
			ks = append(ks, fmt.Sprintf("%c%d", e.Kind, e.Arg))
		}
		c.Note("store_calls", strings.Join(ks, " "))
		c.Violation("operations-interleaved", "calls of different clients on the shared board cursor interleaved: "+why)
	}
	initial := c19nl2cr(plan.initial)
	order, ok := c19Linearise(c, tmpl, dateFmt, initial, final, plan.ops)
	if !bytes.Equal(file, final) {
		c.Note("file", short(file))
		c.Note("board", short(final))
		c.Violation("file-differs-from-board", "with no operation in flight MessageBoard.txt differs from the board being served")
		ok = false
	}
	if order != nil {
		c19CheckNotifications(c, ts, clients, order)
	}
	// raw model on the recorded calls (mirrors FlatNews.Seek/Read/Write call by call)
	line, impl := c19RawLine(initial, 0, log)
	c.Corr("rawStep-trace", impl+"| "+c19Digest(final)+" "+c19Digest(file), c.O.Ask(line), false)
	if ok && order != nil {
		c19ModelSchedule(c, initial, final, file, plan.ops, order)
	}
	nt := c19Overlap(plan.ops)
	if pauses != nil {
		nt = heldSeen && k > 1
	}
	if nt {
		c.Nontrivial(c19PlanCanon(plan) + fmt.Sprint(pauses))
	}
	fam := "board-concurrent"
	if pauses != nil {
		fam = "board-forced"
	}
	c.Dist(fmt.Sprintf("%s/board<2^%d", fam, bitsLen(len(initial))))
	c.Dist(fmt.Sprintf("%s/clients=%d", fam, k))
	c.Sample(map[string]any{"family": fam, "clients": k, "ops": len(plan.ops), "board": len(initial), "posts": len(order), "pauses": pauses, "store_calls": len(log)})
}

// ---------------------------------------------------------------- agreement

func c19Agreement(c *Case, thor bool) {
	r := c.R
	text := c19Text(r, c19BoardSize(r, 65535), r.Chance(40))
	want := c19nl2cr(text)
	ts, err := newTS(TSOpt{Agreement: string(text)})
	if err != nil {
		panic(err)
	}
	defer ts.Close()
	forced := r.Chance(50)
	var pauses []int
	if forced {
		pauses = []int{1 + r.Intn(4)}
	}
	g := newGate(ts.Agree, nil, pauses...)
	ts.Srv.Agreement = g
	// Server.ReadAgreement is looked up dynamically so that the harness also builds against a tree without it
	// (then every client is a real login)
	reader, haveReader := any(ts.Srv).(interface{ ReadAgreement() []byte })
	nLogin := 1 + r.Intn(3)
	nDirect := r.Intn(6)
	if thor && r.Chance(30) {
		nLogin, nDirect = 4+r.Intn(8), 8+r.Intn(24)
	}
	if !haveReader {
		nLogin, nDirect = nLogin+(nDirect+1)/2, 0
	}
	c.Note("agreement_len", len(text))
	c.Note("logins", nLogin)
	c.Note("direct_reads", nDirect)
	c.Note("pauses", pauses)
	type res struct {
		kind      string
		data      []byte
		err       string
		inv, resp int64
	}
	results := make([]res, nLogin+nDirect)
	var conns []*WireClient
	var cmu sync.Mutex
	var wg sync.WaitGroup
	login := func(i int) {
		defer wg.Done()
		results[i].inv = c19Tick.Add(1)
		defer func() { results[i].resp = c19Tick.Add(1) }()
		wc, err := ts.LoginOK(fmt.Sprintf("10.1.%d.%d:3000", i/250, i%250+1), "guest", "", nil)
		cmu.Lock()
		conns = append(conns, wc)
		cmu.Unlock()
		results[i].kind = "login"
		if err != nil && err.Error() == "no login reply" && wc != nil {
			// the fixture waits 5 s; under heavy machine load give the real server more time before judging
			if rp, ok := wc.ReplyTo(1, 40*time.Second); ok && rp.ErrorCode == [4]byte{} {
				err = nil
			}
		}
		if err != nil {
			results[i].err = err.Error()
			return
		}
		found := waitFor(30*time.Second, func() bool {
			_, trans, _, _ := wc.Received()
			for _, t := range trans {
				if t.Type == hotline.TranShowAgreement {
					if len(t.Fields) == 1 && t.Fields[0].Type == hotline.FieldData {
						results[i].data = t.Fields[0].Data
					} else {
						results[i].err = "show-agreement without exactly the data field"
					}
					return true
				}
			}
			return false
		})
		if !found {
			results[i].err = "no show-agreement transaction after a successful login"
		}
	}
	direct := func(i int) {
		defer wg.Done()
		results[i].kind = "ReadAgreement"
		results[i].inv = c19Tick.Add(1)
		results[i].data = reader.ReadAgreement()
		results[i].resp = c19Tick.Add(1)
	}
	heldSeen := false
	if !forced {
		for i := 0; i < nLogin; i++ {
			wg.Add(1)
			go login(i)
		}
		for i := 0; i < nDirect; i++ {
			wg.Add(1)
			go direct(nLogin + i)
		}
		wg.Wait()
	} else {
		firstDone := make(chan struct{})
		wg.Add(1)
		go func() { login(0); close(firstDone) }()
		allDone := make(chan struct{})
		launched := false
		launch := func() {
			if launched {
				return
			}
			launched = true
			for i := 1; i < nLogin; i++ {
				wg.Add(1)
				go login(i)
			}
			for i := 0; i < nDirect; i++ {
				wg.Add(1)
				go direct(nLogin + i)
			}
			go func() { wg.Wait(); close(allDone) }()
		}
		for done := false; !done; {
			select {
			case <-g.held:
				heldSeen = true
				launch()
				select {
				case <-g.intrSig:
				case <-time.After(25 * time.Millisecond):
				}
				g.release <- struct{}{}
			case <-firstDone:
				firstDone = nil
				launch()
			case <-allDone:
				done = true
			}
		}
	}
	for _, wc := range conns {
		if wc != nil {
			wc.Conn.Close()
		}
	}
	for i, rs := range results {
		if rs.err != "" {
			c.Note("client", i)
			c.Note("error", rs.err)
			c.Violation("agreement-not-shown", "a client that logged in was not shown the agreement: "+rs.err)
			continue
		}
		if !bytes.Equal(rs.data, want) {
			c.Note("client", i)
			c.Note("kind", rs.kind)
			c.Note("got", short(rs.data))
			c.Note("got_len", len(rs.data))
			c.Note("want_len", len(want))
			c.Violation("agreement-not-whole", "a client received an agreement text that is not the complete agreement (duplicated, truncated or empty)")
		}
	}
	log := g.Log()
	reads, why := c19Blocks(log)
	if why != "" {
		var ks []string
		for _, e := range log {
			ks = append(ks, fmt.Sprintf("%c%d", e.Kind, e.Arg))
		}
		c.Note("store_calls", strings.Join(ks, " "))
		c.Violation("operations-interleaved", "calls of different clients on the shared agreement cursor interleaved: "+why)
	} else if reads != nLogin+nDirect {
		c.Note("reads", reads)
		c.Violation("agreement-read-count", "the number of whole agreement reads differs from the number of clients served")
	}
	line, impl := c19RawLine(want, 0, log)
	c.Corr("rawStep-trace", impl+"| "+c19Digest(want)+" "+c19Digest(want), c.O.Ask(line), false)
	// model: read-only schedule of nLogin+nDirect operations
	var ml strings.Builder
	fmt.Fprintf(&ml, "c19run %s", hx(want))
	var il []string
	for i := range results {
		fmt.Fprintf(&ml, " r:%d,%d", 1+r.Intn(900), 512)
		il = append(il, c19Digest(results[i].data))
	}
	c.Corr("runOps-agreement", strings.Join(il, " ")+" | "+c19Digest(want)+" "+c19Digest(want), c.O.Ask(ml.String()), true)
	overlap := false
	for i := range results {
		for j := i + 1; j < len(results); j++ {
			if results[i].inv < results[j].resp && results[j].inv < results[i].resp {
				overlap = true
			}
		}
	}
	if (forced && heldSeen && nLogin+nDirect > 1) || (!forced && overlap) {
		c.Nontrivial(fmt.Sprintf("%d|%d|%d|%v", len(text), nLogin, nDirect, pauses))
	}
	c.Dist(fmt.Sprintf("agreement/size<2^%d", bitsLen(len(text))))
	c.Sample(map[string]any{"family": "agreement-concurrent", "size": len(text), "logins": nLogin, "direct": nDirect, "forced": forced})
}

// ---------------------------------------------------------------- post-fault

// c19PostFault: the persist step of a post fails.  Judged by the property: a post that is acknowledged (or announced)
// must be on disk; the model (handlePostF) says a failed persist is neither acknowledged nor announced.
func c19PostFault(c *Case) {
	r := c.R
	initial := c19Text(r, c19BoardSize(r, 20000), false)
	ts, err := newTS(TSOpt{Direct: true, Board: string(initial)})
	if err != nil {
		panic(err)
	}
	defer ts.Close()
	tmpl, dateFmt := c19Template(ts.Srv.Config)
	g := newGate(ts.Board, ts.Board)
	ts.Srv.MessageBoard = g
	filePath := filepath.Join(ts.Cfg, "MessageBoard.txt")
	tmpPath := filePath + ".tmp"
	nClients := 1 + r.Intn(3)
	var clients []*hotline.ClientConn
	for i := 0; i < nClients; i++ {
		cc, _ := ts.DirectClient("admin", []byte(fmt.Sprintf("u%d-%s", i, r.Name(6))), fmt.Sprintf("10.2.0.%d:1000", i+1))
		clients = append(clients, cc)
	}
	faultKind := r.Pick(0, 0, 1) // 0 = directory at the temp name (real store fails), 1 = failing wrapping store
	nPosts := 2 + r.Intn(3)
	faultAt := r.Intn(nPosts)
	c.Note("fault_kind", map[int]string{0: "directory at MessageBoard.txt.tmp", 1: "wrapping store Write fails"}[faultKind])
	c.Note("fault_at_post", faultAt)
	c.Note("posts", nPosts)
	for i := 0; i < nPosts; i++ {
		cc := clients[r.Intn(len(clients))]
		body := append([]byte(fmt.Sprintf("[f%d]", i)), c19Text(r, r.Pick(0, 5, 60, 900), true)...)
		fault := i == faultAt
		if fault {
			if faultKind == 0 {
				os.Remove(tmpPath)
				if err := os.Mkdir(tmpPath, 0755); err != nil {
					panic(err)
				}
			} else {
				g.failWrites.Store(true)
			}
		}
		fileBefore, _ := os.ReadFile(filePath)
		// what is being served (after a failed persist the store's memory keeps the unacknowledged text)
		var memBefore []byte
		if gr, _, _ := ts.Call(cc, mkTran(hotline.TranGetMsgs, 8)); len(gr) == 1 && len(gr[0].Fields) == 1 {
			memBefore = gr[0].Fields[0].Data
		}
		ts.TakeOutbox()
		res, queued, p := ts.Call(cc, mkTran(hotline.TranOldPostNews, uint32(300+i), fld(hotline.FieldData, body)))
		time.Sleep(2 * time.Millisecond)
		queued = append(queued, ts.TakeOutbox()...)
		fileAfter, ferr := os.ReadFile(filePath)
		if fault {
			if faultKind == 0 {
				os.Remove(tmpPath)
			} else {
				g.failWrites.Store(false)
			}
		}
		if p != nil {
			c.Note("panic", fmt.Sprint(p))
			c.Violation("post-panics", "posting to the message board panicked")
			return
		}
		acked := len(res) == 1 && res[0].IsReply == 1 && res[0].ErrorCode == [4]byte{}
		announced := 0
		var announcedText []byte
		for _, t := range queued {
			if t.Type == hotline.TranNewMsg {
				announced++
				if len(t.Fields) == 1 {
					announcedText = t.Fields[0].Data
				}
			}
		}
		// is the post on disk?  (the file must start with a post by this user with this body and still end with the old file)
		n, date, onDisk := c19MatchPost(fileAfter, tmpl, dateFmt, cc.UserName, body)
		onDisk = onDisk && ferr == nil && bytes.HasSuffix(fileAfter[n:], fileBefore)
		c.Note("post_index", i)
		c.Note("fault_injected", fault)
		c.Note("acknowledged", acked)
		c.Note("announced_to", announced)
		c.Note("on_disk", onDisk)
		if (acked || announced > 0) && !onDisk {
			c.Note("file_after", short(fileAfter))
			c.Note("announced_text", short(announcedText))
			c.Violation("acknowledged-post-not-on-disk", "a post was acknowledged to the poster / announced to the users although MessageBoard.txt does not hold it (the persist step had failed): it is lost at the next restart")
			return
		}
		if !fault && !acked {
			c.Violation("post-not-acknowledged", "a post by a user allowed to post got no plain reply although nothing prevented persisting it")
			return
		}
		// model: outcome of the handler given the outcome of the persist step
		ok := "1"
		if !onDisk {
			ok = "0"
			date = ""
		}
		want := c.AskS("c19postf", ok, fmt.Sprint(nClients), hx([]byte(tmpl)), hx(cc.UserName), hx([]byte(date)), hx(body), hx(memBefore), hx(fileBefore))
		ackedN := 0
		if acked {
			ackedN = 1
		}
		c.Corr("handlePostF", fmt.Sprintf("acked=%d notes=%d file=%s", ackedN, announced, c19Digest(fileAfter)), want, false)
		if fault {
			c.Nontrivial(fmt.Sprintf("%d|%d|%d|%x|%d", faultKind, faultAt, nPosts, body, len(initial)))
			c.Dist(fmt.Sprintf("post-fault/kind=%d/acked=%v", faultKind, acked))
		}
	}
	// at rest: what is served contains everything the file holds, and every acknowledged post is in both
	file, _ := os.ReadFile(filePath)
	re, err := mobius.NewFlatNews(filePath)
	if err != nil {
		c.Violation("board-reload", "MessageBoard.txt cannot be loaded after a failed and a successful post: "+err.Error())
		return
	}
	re.Seek(0, 0)
	reb, _ := io.ReadAll(re)
	if !bytes.Equal(reb, file) {
		c.Violation("board-reload", "after a restart the board differs from MessageBoard.txt")
	}
	c.Sample(map[string]any{"family": "post-fault", "fault": faultKind, "at": faultAt, "posts": nPosts})
}

// ---------------------------------------------------------------- board-reload

// c19BoardReload: posters and readers through the real handlers while the operator's reload (what SIGHUP / the API
// call run: (*mobius.FlatNews).Reload) loops.  Every acknowledged post must be on the served board and in the file.
func c19BoardReload(c *Case, thor bool) {
	r := c.R
	k := 2 + r.Intn(3)
	plan := c19MakePlan(r, k, 4, 1000, 75)
	plan.initial = c19Text(r, 8000+r.Intn(52000-8000), false)
	posts := 0
	for _, o := range plan.ops {
		if o.Post {
			posts++
		}
	}
	if posts == 0 {
		plan.ops[0].Post = true
		plan.ops[0].Body = []byte("[c0-x]only")
	}
	ts, err := newTS(TSOpt{Direct: true, Board: string(plan.initial)})
	if err != nil {
		panic(err)
	}
	defer ts.Close()
	tmpl, dateFmt := c19Template(ts.Srv.Config)
	var clients []*hotline.ClientConn
	for i := 0; i < k; i++ {
		cc, _ := ts.DirectClient("admin", plan.names[i], fmt.Sprintf("10.3.0.%d:2000", i+1))
		clients = append(clients, cc)
	}
	perClient := make([][]*c19Op, k)
	for _, o := range plan.ops {
		perClient[o.Client] = append(perClient[o.Client], o)
	}
	nReload := 1 + r.Intn(3)
	c.Note("initial_len", len(plan.initial))
	c.Note("plan", fmt.Sprint(plan.ops))
	c.Note("reloaders", nReload)
	stop := make(chan struct{})
	var reloads, reloadErrs atomic.Int64
	var rwg sync.WaitGroup
	for i := 0; i < nReload; i++ {
		rwg.Add(1)
		go func() {
			defer rwg.Done()
			for {
				select {
				case <-stop:
					return
				default:
				}
				if err := ts.Board.Reload(); err != nil {
					reloadErrs.Add(1)
				}
				reloads.Add(1)
			}
		}()
	}
	// let the reloaders spin up, then start the clients together
	waitFor(time.Second, func() bool { return reloads.Load() >= int64(nReload) })
	start := make(chan struct{})
	var wg sync.WaitGroup
	before := reloads.Load()
	for i := 0; i < k; i++ {
		wg.Add(1)
		go func(i int) {
			defer wg.Done()
			<-start
			for j, o := range perClient[i] {
				c19RunOp(ts, clients[i], o, uint32(i*16+j))
			}
		}(i)
	}
	close(start)
	wg.Wait()
	during := reloads.Load() - before
	close(stop)
	rwg.Wait()
	c.Note("reloads_during_run", during)
	if n := reloadErrs.Load(); n > 0 {
		c.Note("reload_errors", n)
		c.Violation("reload-fails", "the operator's reload of the message board failed while clients were posting (the file was missing or unreadable at some instant)")
	}
	fin := &c19Op{}
	c19RunOp(ts, clients[0], fin, 9999)
	file, _ := os.ReadFile(filepath.Join(ts.Cfg, "MessageBoard.txt"))
	if !fin.replyOK {
		c.Violation("get-messages-reply", "get-messages did not return one reply with the data field")
		return
	}
	initial := c19nl2cr(plan.initial)
	order, ok := c19Linearise(c, tmpl, dateFmt, initial, fin.data, plan.ops)
	if !bytes.Equal(file, fin.data) {
		c.Note("file", short(file))
		c.Note("board", short(fin.data))
		c.Note("file_len", len(file))
		c.Note("board_len", len(fin.data))
		c.Violation("file-differs-from-board", "with no operation in flight MessageBoard.txt differs from the board being served (an operator reload overlapped a post)")
		ok = false
	}
	if order != nil {
		c19CheckNotifications(c, ts, clients, order)
	}
	if ok && order != nil {
		c19ModelSchedule(c, initial, fin.data, file, plan.ops, order)
	}
	if during > 0 {
		c.Nontrivial(c19PlanCanon(plan) + fmt.Sprint(nReload))
	}
	c.Dist(fmt.Sprintf("board-reload/reloaders=%d", nReload))
	c.Sample(map[string]any{"family": "board-reload", "clients": k, "ops": len(plan.ops), "board": len(initial), "reloads_during_run": during})
}
