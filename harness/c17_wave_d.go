//go:build c17

package main

// C17, wave d.
//
//  kick-window   the history of c14_c17_kick.go: an administrator disconnects U (plain / temporary ban / permanent
//                ban); U's client closes its own connection during the grace second; 1-3 newcomers from OTHER
//                addresses log in while the delayed second Disconnect is held at a gate; it runs; everybody sends
//                requests; then the door is knocked on from U's address and from a newcomer's address.
//                Judged: U's connection is closed and the others were told U left; every OTHER address is
//                unaffected — each newcomer (and administrator, bystander) is still in the user list (the table and
//                the list a client fetches), nobody is told that it left, it keeps being served, its address is not
//                on the ban list and is let in at the door; U's address is refused iff a ban was requested.
//                Flavours: ids as they come, or the id counter advanced through the 16-bit wrap by real Add/Delete
//                pairs until U's id is the allocator's next candidate (the newcomer then inherits U's id).

import (
	"fmt"
	"strings"
	"sync"
	"time"

	"github.com/jhalter/mobius/hotline"
)

func kwIP(addr string) string { return strings.Split(addr, ":")[0] }

// kwKnock: a fresh connection from addr (handshake + guest login + keep-alive); what it got.
func kwKnock(kr *kickRun, addr string, loginID uint32, expectRefused bool) doorObs {
	data := append(append([]byte{}, clientHandshake...), guestLoginAndKeepalive(loginID)...)
	conn := newScriptConn(data, nil)
	if !expectRefused {
		conn.gateOff = len(data)
		conn.gate = func(int) {
			// hold EOF back until the login reply and the keep-alive reply were written
			waitFor(kwWait, func() bool {
				w := conn.Written()
				if len(w) <= 8 {
					return false
				}
				trs, _, _ := splitTransactions(w[8:])
				got := 0
				for _, t := range trs {
					if t.IsReply == 1 && (u32(t.ID) == loginID || u32(t.ID) == loginID+1) {
						got++
					}
					if t.IsReply == 0 && u16(t.Type) == 104 {
						return true // refused after all: nothing more will come
					}
				}
				return got >= 2
			})
		}
	}
	run := runControl(kr.TS, conn, addr, kwWait)
	o := doorObs{Written: conn.Written(), Err: errStr(run.Err), Done: run.Done}
	for _, e := range kr.Mgr.history() {
		if e.Kind == "add" && e.Addr == addr {
			o.Registered++
		}
	}
	if len(o.Written) > 8 {
		trs, _, _ := splitTransactions(o.Written[8:])
		o.NTrans = len(trs)
		for i := range trs {
			if u16(trs[i].Type) == 104 && trs[i].IsReply == 0 && o.Notice == nil {
				o.Notice = &trs[i]
			}
			if trs[i].IsReply == 1 && u32(trs[i].ID) == loginID && u32(trs[i].ErrorCode) == 0 {
				o.LoginReply = true
			}
		}
	}
	return o
}

func runKickWindowC17(c *Case) {
	plan := randKickPlan(c.R)
	banned := plan.Option == 1 || plan.Option == 2
	var doorTarget, doorOther doorObs
	var otherAddr, targetDoor string
	knocked := false
	kr := runKickWindow(c, plan, func(kr *kickRun) {
		if len(kr.New) == 0 {
			return
		}
		// the door, from the kicked user's address and from a newcomer's address (other ports), concurrently
		targetDoor = fmt.Sprintf("%s:%d", kwIP(kr.Target.Addr), 61001)
		otherAddr = fmt.Sprintf("%s:%d", kwIP(kr.New[0].Addr), 61002)
		var wg sync.WaitGroup
		wg.Add(2)
		go func() { defer wg.Done(); doorTarget = kwKnock(kr, targetDoor, 9000, banned) }()
		go func() { defer wg.Done(); doorOther = kwKnock(kr, otherAddr, 9100, false) }()
		wg.Wait()
		knocked = true
	})
	c.Note("plan", plan.String())
	if kr.Skip != "" {
		c.Dist("kick-window/skipped")
		c.Note("skip", kr.Skip)
		if strings.Contains(kr.Skip, "login") {
			fixtureLoginFailed(c, kr.Skip)
		}
		return
	}
	optName := map[int]string{-1: "no ban option", 1: "the temporary ban option", 2: "the permanent ban option"}[plan.Option]
	if !kr.Closed {
		c.Violation("target-not-disconnected", "the disconnected user's connection was not closed")
		return
	}
	if !kr.ToldLeft {
		c.Violation("others-not-told", "the other users were not told that the disconnected user left (disconnect with "+optName+")")
		return
	}
	hist := kr.Events
	c.Note("registry_events", kwHistory(hist))
	c.Note("target", fmt.Sprintf("id %d %s", kr.Target.ID, kr.Target.Addr))
	var ids []string
	for _, k := range kr.New {
		ids = append(ids, fmt.Sprintf("%s=id %d %s", k.Name, k.ID, k.Addr))
	}
	c.Note("newcomers", strings.Join(ids, ", "))
	suffix := ""
	if plan.Wrap && kr.Wrapped {
		suffix = "-after-id-wrap"
	}
	c.Dist(fmt.Sprintf("kick-window/wrap=%v selfclose=%v option=%d", plan.Wrap && kr.Wrapped, plan.SelfClose, plan.Option))
	if kr.Raced {
		c.Dist("kick-window/timer-won-the-race")
	}
	// ---- every other address is unaffected
	for _, e := range hist {
		if e.Kind == "delayed-delete" && e.Serial >= 0 && e.Addr != kr.Target.Addr {
			c.Violation("bystander-removed-by-stale-disconnect"+suffix, fmt.Sprintf("the administrator disconnected the user at %s (id %d, %s); that user hung up during the grace second and the delayed Disconnect then removed the connection from %s (id %d now) from the client table: a user from another address is affected", kr.Target.Addr, kr.Target.ID, optName, e.Addr, e.ID))
			break
		}
	}
	others := append(append([]*kickClient{}, kr.New...), kr.Admin, kr.Bystander)
	watchers := others
	for _, k := range others {
		for _, w := range watchers {
			from := 0
			if w == kr.Admin || w == kr.Bystander {
				from = w.Base // earlier notices with this id were about the kicked user's own departure
			}
			if w != k && kwSawLeft(w, from, k.ID) {
				c.Violation("bystander-announced-left"+suffix, fmt.Sprintf("%s was told that user %d left — that id belongs to %s (%s), who is still connected; the only user who left is the disconnected one (id %d, %s)", w.Name, k.ID, k.Name, k.Addr, kr.Target.ID, kr.Target.Addr))
				return
			}
		}
		if !k.Listed {
			c.Violation("bystander-missing-from-user-list"+suffix, fmt.Sprintf("%s (id %d, %s) is connected but no longer in the server's client table after the disconnect of the user at %s", k.Name, k.ID, k.Addr, kr.Target.Addr))
			return
		}
		if kr.UserList != nil {
			in := false
			for _, id := range kr.UserList {
				in = in || id == k.ID
			}
			if !in {
				c.Note("user_list", fmt.Sprint(kr.UserList))
				c.Violation("bystander-missing-from-user-list"+suffix, fmt.Sprintf("the user list fetched by the bystander after the disconnect does not contain %s (id %d, %s), who is still connected", k.Name, k.ID, k.Addr))
				return
			}
		}
		for _, id := range k.After {
			if !kwHasReply(k, id) {
				c.Violation("bystander-not-served"+suffix, fmt.Sprintf("%s (id %d, %s — not the disconnected address) sent request %d (type %d) after the disconnect of the user at %s had completed and got no reply; a request of that kind was answered a moment earlier", k.Name, k.ID, k.Addr, id, k.Sent[id], kr.Target.Addr))
				return
			}
		}
		if l, _ := kr.TS.Bans.IsBanned(kwIP(k.Addr)); l {
			c.Violation("ban-hit-other-address", "banning one address listed another address")
			return
		}
	}
	if !kr.Fenced {
		c.Violation("bystander-not-served"+suffix, "a user from another address who logged in while the disconnect was pending sent a chat line afterwards; it never reached the other users")
		return
	}
	if kr.UserList == nil {
		c.Violation("bystander-not-served"+suffix, "the bystander's user-list request after the disconnect got no reply")
		return
	}
	for _, id := range kr.UserList {
		if id == kr.Target.ID {
			holder := false
			for _, k := range others {
				holder = holder || k.ID == id
			}
			if !holder {
				c.Violation("target-still-listed", "the disconnected user is still in the user list")
				return
			}
		}
	}
	// ---- the ban entry and the door
	listed, until := kr.TS.Bans.IsBanned(kwIP(kr.Target.Addr))
	if listed != banned || (plan.Option == 2 && until != nil) || (plan.Option == 1 && until == nil) {
		c.Note("stored", fmt.Sprint(listed, until))
		c.Violation("ban-entry-wrong", fmt.Sprintf("disconnect with %s: ban list entry present=%v (until %v)", optName, listed, until))
		return
	}
	if knocked {
		c.Note("door_target", short(doorTarget.Written))
		c.Note("door_other", short(doorOther.Written))
		if banned {
			if why := refusedExactly(doorTarget, plan.Option == 2); why != "" {
				if doorTarget.Notice == nil {
					c.Violation("ban-not-enforced", "after a disconnect with "+optName+" the address was not refused: "+why)
				} else {
					c.Violation("ban-refusal-malformed", why)
				}
				return
			}
		} else if doorTarget.Notice != nil || !(doorTarget.LoginReply && doorTarget.Registered == 1) {
			c.Violation("unbanned-address-refused", "after a plain disconnect the user's address could not log in again")
			return
		}
		if doorOther.Notice != nil {
			c.Violation("unbanned-address-refused", "an address that was not banned was refused after a disconnect ("+optName+")")
			return
		}
		if !(doorOther.LoginReply && doorOther.Registered == 1) {
			c.Violation("unbanned-address-not-served", "an address that was not banned could not log in after a disconnect ("+optName+")")
			return
		}
		// the model's gate on the same store
		now := time.Now()
		opt := "none"
		if plan.Option >= 0 {
			opt = fmt.Sprint(plan.Option)
		}
		at := now.UnixNano() - int64(5*time.Second)
		if plan.Option == 1 && until != nil {
			at = until.UnixNano() - int64(hotline.BanDuration)
		}
		for _, k := range []struct {
			addr    string
			refused bool
		}{{targetDoor, doorTarget.Notice != nil}, {otherAddr, doorOther.Notice != nil}} {
			h := c.O.Ask(fmt.Sprintf("banhist %s %d d %s %s %d", hx([]byte(k.addr)), now.UnixNano(), hx([]byte(kwIP(kr.Target.Addr))), opt, at))
			c.Corr("door-after-kick", fmt.Sprintf("refused=%d", b2i(k.refused)), strings.Fields(h + " x")[0], false)
		}
	}
	kwModelCorr(c, kr)
	c.Evals(2)
	c.Nontrivial(fmt.Sprintf("%s|%d|%s", plan.String(), kr.Target.ID, kwHistory(hist)))
	c.Sample(map[string]any{"family": "kick-window", "plan": plan.String(), "registry_events": kwHistory(hist)})
}

func c17WaveD(x *Ctx) {
	x.rule += "; kick-window: administrator, bystander and target log in over real connections in one of the 6 orders; optionally the id counter is advanced by real Add/Delete pairs until the target's id is the allocator's next candidate (16-bit wrap); disconnect request (no option / temporary / permanent ban); the target's client closes its own connection during the grace second (15%: waits to be closed); 1-3 newcomers from other addresses log in while the delayed second Disconnect is held at a gate in a wrapped ClientMgr; it runs; requests from everybody (twice); then knocks from the target's address and from a newcomer's address"
	x.assume = append(x.assume, "time.Sleep(1 s) in the disconnect handler's goroutine is a lower bound: the harness delays that goroutine's ClientMgr.Delete further (wrapped interface field) until the newcomers have logged in — a legal schedule, forced instead of sampled; when the second Disconnect does nothing observable the harness waits until 2.5 s after the request was answered")
	x.Add(&Family{Name: "kick-window", Quick: 24, Thor: 300, Run: runKickWindowC17})
	kwOnly(x)
}
