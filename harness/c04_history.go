//go:build c04

package main

// C04 — histories before the login attempt.
//
// batch-edit-login: an administrator saves ONE TranUpdateUser (349) holding several account records (password
// changes, "keep" edits, password removals, deletions, creations, renames — in every order, sub-fields of each
// record shuffled); afterwards connections present, for every account involved, the password the last
// acknowledged edit set, the password it had before, the passwords other records of the same batch set, and
// nothing.  Judged with the property's own condition: logged in iff the login names an account that exists NOW
// and the password is that account's CURRENT password.  The table after the batch is also compared with the
// Lean model (LoginHistory.applyBatch) and with the real account manager.
//
// ban-reload-gate: a configuration reload (the sequence SIGHUP / /api/v1/reload run: message board, BanFile.Load,
// threaded news, agreement) overlaps connection attempts.  The schedule is forced: Banlist.yaml is replaced by a
// FIFO holding the operator's new list, so the reload waits inside the file read until the harness supplies the
// bytes; meanwhile connections from banned and unbanned addresses arrive.  An address that is banned before and
// after the reload must never be served; after the reload the gate follows the new list exactly.

import (
	"bytes"
	"fmt"
	"os"
	"path/filepath"
	"sort"
	"strings"
	"sync"
	"syscall"
	"time"

	"github.com/jhalter/mobius/hotline"
	"golang.org/x/crypto/bcrypt"
	"gopkg.in/yaml.v3"
)

// ---------------------------------------------------------------- one probe connection

type probeRes struct {
	done      bool
	loggedIn  bool
	written   []byte
	loginID   uint32
	errString string
}

// probeLogin runs the real handleNewConnection on: handshake + login(login, pw) + one user-list request.
func probeLogin(ts *TS, addr, login string, pw []byte, pwAbsent bool, loginID uint32, wait time.Duration) probeRes {
	var pwField []byte
	if !pwAbsent {
		pwField = append([]byte{}, pw...)
		if pwField == nil {
			pwField = []byte{}
		}
	}
	lt := loginTranWire(107, loginID, hotline.EncodeString([]byte(login)), pwField, fld(hotline.FieldUserName, []byte("probe")))
	data := append(append([]byte{}, clientHandshake...), encTran(lt)...)
	data = append(data, encTran(tranOf(300, 0x61000000))...)
	conn := newScriptConn(data, nil)
	// the end of the stream is delivered once the replies of a successful login were written (or after a while):
	// the server drops queued replies when the connection ends
	conn.gateOff = len(data)
	conn.gate = func(int) {
		waitFor(25*time.Second, func() bool { // a refusal is written at once; only a slow machine ever waits here
			w := conn.Written()
			if len(w) <= 8 {
				return false
			}
			trs, _, _ := splitTransactions(w[8:])
			answered := false
			for _, t := range trs {
				if t.IsReply == 1 && u32(t.ID) == loginID {
					if u32(t.ErrorCode) != 0 {
						return true // refused: nothing more will come
					}
					answered = true
				}
			}
			return answered && len(trs) >= 2
		})
	}
	run := runControl(ts, conn, addr, wait)
	res := probeRes{done: run.Done, written: conn.Attempted(), loginID: loginID, errString: errStr(run.Err)}
	if len(res.written) > 8 {
		// logged in = the success reply to the login was sent; transactions sent without any refusal also count (the
		// reply itself is written by an independent sender goroutine and is dropped when the stream has ended)
		trs, _, _ := splitTransactions(res.written[8:])
		refused, notice := false, false
		for _, t := range trs {
			if t.IsReply == 1 && u32(t.ID) == loginID && u32(t.ErrorCode) == 0 {
				res.loggedIn = true
			}
			if t.IsReply == 1 && u32(t.ID) == loginID && u32(t.ErrorCode) != 0 {
				refused = true
			}
			if t.IsReply == 0 && u16(t.Type) == 104 {
				notice = true
			}
		}
		if len(trs) > 0 && !refused && !notice {
			res.loggedIn = true
		}
	}
	return res
}

// ---------------------------------------------------------------- batch-edit-login

type editRec struct {
	Kind     string // pw | keep | nopw | delete | create | rename
	Target   string // the account named (rename: the OLD login)
	NewLogin string // rename only
	Pw       []byte // pw / create / rename-with-password
	PwMode   int    // rename: 0 keep ({0}), 1 new password, 2 field absent
}

func (e editRec) subFields(r *RNG) []hotline.Field {
	ga := guestAccess()
	obf := func(s string) []byte { return hotline.EncodeString([]byte(s)) }
	var fs []hotline.Field
	switch e.Kind {
	case "delete":
		return []hotline.Field{fld(hotline.FieldData, obf(e.Target))}
	case "pw", "create":
		fs = []hotline.Field{fld(hotline.FieldUserLogin, obf(e.Target)), fld(hotline.FieldUserName, []byte("N-"+e.Target)), fld(hotline.FieldUserAccess, ga[:]), fld(hotline.FieldUserPassword, e.Pw)}
	case "keep":
		fs = []hotline.Field{fld(hotline.FieldUserLogin, obf(e.Target)), fld(hotline.FieldUserName, []byte("N-"+e.Target)), fld(hotline.FieldUserAccess, ga[:]), fld(hotline.FieldUserPassword, []byte{0})}
	case "nopw":
		fs = []hotline.Field{fld(hotline.FieldUserLogin, obf(e.Target)), fld(hotline.FieldUserName, []byte("N-"+e.Target)), fld(hotline.FieldUserAccess, ga[:])}
	case "rename":
		fs = []hotline.Field{fld(hotline.FieldData, obf(e.Target)), fld(hotline.FieldUserLogin, obf(e.NewLogin)), fld(hotline.FieldUserName, []byte("N-"+e.NewLogin)), fld(hotline.FieldUserAccess, ga[:])}
		switch e.PwMode {
		case 0:
			fs = append(fs, fld(hotline.FieldUserPassword, []byte{0}))
		case 1:
			fs = append(fs, fld(hotline.FieldUserPassword, e.Pw))
		}
	}
	// the order of a record's sub-fields carries no meaning
	for i := len(fs) - 1; i > 0; i-- {
		j := r.Intn(i + 1)
		fs[i], fs[j] = fs[j], fs[i]
	}
	return fs
}

// applySpec: what the editor's record means for the table login -> current password (the property's reference,
// written independently of the Lean model).  ok=false: the handler stops at this record.
func (e editRec) applySpec(tab map[string][]byte) bool {
	switch e.Kind {
	case "delete":
		if _, ok := tab[e.Target]; !ok {
			return false
		}
		delete(tab, e.Target)
	case "pw", "create":
		tab[e.Target] = append([]byte{}, e.Pw...) // existing: password replaced; absent: created with it
	case "keep":
		if _, ok := tab[e.Target]; !ok {
			tab[e.Target] = []byte{0} // created with the literal value (never generated for an absent account)
		}
	case "nopw":
		if _, ok := tab[e.Target]; !ok {
			return false // creation without a password sub-field: the handler fails on the missing field
		}
		tab[e.Target] = []byte{}
	case "rename":
		old, ok := tab[e.Target]
		if !ok {
			// the source does not exist: the record creates NewLogin (needs a password sub-field)
			if _, exists := tab[e.NewLogin]; exists || e.PwMode == 2 {
				return false
			}
			if e.PwMode == 0 {
				tab[e.NewLogin] = []byte{0}
			} else {
				tab[e.NewLogin] = append([]byte{}, e.Pw...)
			}
			return true
		}
		if e.NewLogin != e.Target {
			if _, exists := tab[e.NewLogin]; exists {
				return false
			}
		}
		np := old
		switch e.PwMode {
		case 1:
			np = append([]byte{}, e.Pw...)
		case 2:
			np = []byte{}
		}
		delete(tab, e.Target)
		tab[e.NewLogin] = np
	}
	return true
}

func c04BatchEditFamily(c *Case) {
	r := c.R
	if tooManyStalls(c) {
		c.Dist("skipped/after-repeated-stalls")
		return
	}
	subjects := []string{"alice", "bob", "carol", "dave"}
	pool := []string{"erin", "frank"}
	rootPw := wirePassword(r, 12)
	accts := []sessAcct{
		{Login: "root", Name: "Root", PwWire: rootPw, Access: allAccess()},
		{Login: "guest", Name: "Guest", PwWire: []byte{}, Access: guestAccess()},
	}
	tab := map[string][]byte{}
	before := map[string][]byte{}
	for _, s := range subjects {
		pw := wirePassword(r, r.Pick(4, 12, 30))
		accts = append(accts, sessAcct{Login: s, Name: "N-" + s, PwWire: pw, Access: guestAccess()})
		tab[s] = pw
		before[s] = pw
	}
	ts, err := newTS(TSOpt{Accounts: acctSpecs(accts), Board: "old news\r", Agreement: "agree"})
	if err != nil {
		c.Note("fixture", err.Error())
		c.Dist("skipped/fixture")
		return
	}
	defer ts.Close()
	// ---- the batch
	nrec := r.Pick(1, 2, 2, 3, 3, 4, 5)
	var recs []editRec
	var batchPws [][]byte
	sim := map[string][]byte{}
	for k, v := range tab {
		sim[k] = v
	}
	invalidAt := -1
	for i := 0; i < nrec; i++ {
		var present, absent []string
		for _, l := range append(append([]string{}, subjects...), pool...) {
			if _, ok := sim[l]; ok {
				present = append(present, l)
			} else {
				absent = append(absent, l)
			}
		}
		var e editRec
		k := r.Intn(100)
		switch {
		case k < 34 && len(present) > 0:
			e = editRec{Kind: "pw", Target: present[r.Intn(len(present))], Pw: wirePassword(r, 16)}
		case k < 44 && len(present) > 0:
			e = editRec{Kind: "keep", Target: present[r.Intn(len(present))]}
		case k < 52 && len(present) > 0:
			e = editRec{Kind: "nopw", Target: present[r.Intn(len(present))]}
		case k < 72 && len(present) > 0:
			e = editRec{Kind: "delete", Target: present[r.Intn(len(present))]}
		case k < 84 && len(absent) > 0:
			e = editRec{Kind: "create", Target: absent[r.Intn(len(absent))], Pw: wirePassword(r, 16)}
		case k < 96 && len(present) > 0 && len(absent) > 0:
			e = editRec{Kind: "rename", Target: present[r.Intn(len(present))], NewLogin: absent[r.Intn(len(absent))], PwMode: r.Intn(3), Pw: wirePassword(r, 16)}
		case len(absent) > 0 && invalidAt < 0 && r.Chance(50):
			e = editRec{Kind: "delete", Target: absent[r.Intn(len(absent))]} // no such account: the handler stops here, no success reply
		case len(present) > 1 && invalidAt < 0:
			a := present[r.Intn(len(present))]
			b := present[r.Intn(len(present))]
			if a == b {
				e = editRec{Kind: "keep", Target: a}
			} else {
				e = editRec{Kind: "rename", Target: a, NewLogin: b, PwMode: r.Intn(2), Pw: wirePassword(r, 16)} // new login taken: refused
			}
		default:
			e = editRec{Kind: "pw", Target: subjects[0], Pw: wirePassword(r, 16)}
			if _, ok := sim[subjects[0]]; !ok {
				e.Kind = "create"
			}
		}
		if e.Pw != nil && (e.Kind == "pw" || e.Kind == "create" || (e.Kind == "rename" && e.PwMode == 1)) {
			batchPws = append(batchPws, e.Pw)
		}
		recs = append(recs, e)
		if invalidAt < 0 && !e.applySpec(sim) {
			invalidAt = i
		}
	}
	// the property's reference: records in order, stop at the first failing one
	wantAck := true
	for _, e := range recs {
		if !e.applySpec(tab) {
			wantAck = false
			break
		}
	}
	var kinds []string
	var fields []hotline.Field
	var recFields [][]hotline.Field
	for _, e := range recs {
		kinds = append(kinds, e.Kind+":"+e.Target+func() string {
			if e.Kind == "rename" {
				return fmt.Sprintf(">%s/pw%d", e.NewLogin, e.PwMode)
			}
			return ""
		}())
		subs := e.subFields(r)
		recFields = append(recFields, subs)
		body := be16(len(subs))
		for _, f := range subs {
			body = append(body, f.Type[:]...)
			body = append(body, be16(len(f.Data))...)
			body = append(body, f.Data...)
		}
		fields = append(fields, fld(hotline.FieldData, body))
	}
	c.Note("batch", kinds)
	c.Dist(fmt.Sprintf("batch/records-%d", len(recs)))
	for _, e := range recs {
		c.Dist("batch/record-" + e.Kind)
	}
	// ---- the administrator sends it over the wire
	rc, err := ts.LoginOK("10.0.0.9:5000", "root", string(hotline.EncodeString(rootPw)), nil, fld(hotline.FieldUserName, []byte("admin")), fld(hotline.FieldVersion, []byte{0, 0xbe}))
	if err != nil || !waitFor(8*time.Second, func() bool { return countTransactions(rc.Conn.Written()) >= 3 }) {
		rc.Conn.EOF()
		fixtureLoginFailed(c, "administrator login")
		return
	}
	rc.Conn.Feed(encTran(tranOf(349, 77, fields...)))
	rc.Conn.Feed(encTran(tranOf(500, 78))) // handled after the edit on the same connection: its reply marks the end of the edit
	dropped := false
	okKA := waitFor(15*time.Second, func() bool {
		if _, ok := rc.ReplyTo(78, 0); ok {
			return true
		}
		if _, done := rc.WaitDone(time.Millisecond); done {
			dropped = true // the handler left the connection loop (a contained panic): the edit ended without any reply
			return true
		}
		return false
	})
	var rep77 *hotline.Transaction
	got77 := false
	if !dropped {
		rep77, got77 = rc.ReplyTo(77, 6*time.Second) // replies are written by independent sender goroutines: allow for reordering
	}
	rc.Conn.EOF()
	rc.WaitDone(5 * time.Second)
	gone := waitFor(5*time.Second, func() bool { return len(ts.Srv.ClientMgr.List()) == 0 })
	if !okKA || !gone {
		fixtureLoginFailed(c, "administrator's edit did not complete")
		return
	}
	if dropped && wantAck {
		c.Disagree("batch-edit-dropped-the-connection", "a batch of valid account records ("+strings.Join(kinds, ", ")+") ended the administrator's connection without a reply")
		return
	}
	acked := got77 && u32(rep77.ErrorCode) == 0
	c.Note("acknowledged", acked)
	// ---- the model's table, the generator's table, the account manager's table
	universe := append(append([]string{}, subjects...), pool...)
	var sb strings.Builder
	fmt.Fprintf(&sb, "acctbatch %d", len(accts))
	for _, a := range accts {
		fmt.Fprintf(&sb, " %s %s", hx([]byte(a.Login)), hx(a.modelHash()))
	}
	fmt.Fprintf(&sb, " %d", len(recFields))
	for _, subs := range recFields {
		fmt.Fprintf(&sb, " %d", len(subs))
		for _, f := range subs {
			fmt.Fprintf(&sb, " %d %s", u16(f.Type), hx(f.Data))
		}
	}
	for _, l := range universe {
		fmt.Fprintf(&sb, " %s", hx([]byte(l)))
	}
	mans := c.O.Ask(sb.String())
	var genCanon, implCanon []string
	genCanon = append(genCanon, fmt.Sprintf("ack=%d", b2i(wantAck)))
	implCanon = append(implCanon, fmt.Sprintf("ack=%d", b2i(acked)))
	for _, l := range universe {
		pw, ok := tab[l]
		if !ok {
			genCanon = append(genCanon, hx([]byte(l))+"=none")
		} else {
			genCanon = append(genCanon, hx([]byte(l))+"="+hx(append([]byte{1}, pw...)))
		}
		acc := ts.Srv.AccountManager.Get(l)
		switch {
		case acc == nil:
			implCanon = append(implCanon, hx([]byte(l))+"=none")
		case ok && bcrypt.CompareHashAndPassword([]byte(acc.Password), pw) == nil:
			implCanon = append(implCanon, hx([]byte(l))+"="+hx(append([]byte{1}, pw...)))
		default:
			implCanon = append(implCanon, hx([]byte(l))+"=other-password")
		}
	}
	c.Note("model", clip(mans))
	if !c.Corr("batch-model-vs-reference", strings.Join(genCanon, " "), mans, false) {
		return
	}
	c.Corr("batch-table", strings.Join(implCanon, " "), mans, false)
	// ---- login attempts against the edited table
	after := []sessAcct{accts[0], accts[1]}
	for _, l := range universe {
		if pw, ok := tab[l]; ok {
			after = append(after, sessAcct{Login: l, Name: "N-" + l, PwWire: pw, Access: guestAccess()})
		}
	}
	type probe struct {
		login  string
		pw     []byte
		absent bool
		kind   string
	}
	var probes []probe
	touched := map[string]bool{}
	for _, e := range recs {
		touched[e.Target] = true
		if e.NewLogin != "" {
			touched[e.NewLogin] = true
		}
	}
	var tl []string
	for l := range touched {
		tl = append(tl, l)
	}
	sort.Strings(tl)
	for _, l := range tl {
		if pw, ok := tab[l]; ok {
			probes = append(probes, probe{l, pw, len(pw) == 0 && r.Bool(), "current"})
		}
		if pw, ok := before[l]; ok && !bytes.Equal(pw, tab[l]) {
			probes = append(probes, probe{l, pw, false, "before-the-batch"})
		} else if _, now := tab[l]; !now {
			probes = append(probes, probe{l, []byte{}, r.Bool(), "empty"})
		}
		if len(batchPws) > 0 {
			p := batchPws[r.Intn(len(batchPws))]
			if cur, ok := tab[l]; !ok || !bytes.Equal(cur, p) {
				probes = append(probes, probe{l, p, false, "another-records-password"})
			}
		}
	}
	// an untouched account keeps its password
	for _, l := range subjects {
		if !touched[l] {
			probes = append(probes, probe{l, before[l], false, "untouched-current"})
			break
		}
	}
	for i := len(probes) - 1; i > 0; i-- {
		j := r.Intn(i + 1)
		probes[i], probes[j] = probes[j], probes[i]
	}
	if len(probes) > 7 {
		probes = probes[:7]
	}
	now := time.Now()
	for i, p := range probes {
		addr := fmt.Sprintf("%d.%d.%d.%d:%d", 11+r.Intn(200), r.Intn(256), r.Intn(256), 1+r.Intn(254), 1024+r.Intn(60000))
		loginID := 1 + uint32(r.Intn(1<<30))
		cur, exists := tab[p.login]
		expectIn := exists && bytes.Equal(cur, p.pw)
		res := probeLogin(ts, addr, p.login, p.pw, p.absent, loginID, 40*time.Second)
		c.Dist("probe/" + p.kind + fmt.Sprintf("/exists=%v", exists))
		what := fmt.Sprintf("probe %d: login %q with the password %s (account exists now=%v)", i, p.login, p.kind, exists)
		if !res.done {
			c.Note("probe", what)
			c.Violation("prelogin-hang", "handleNewConnection did not return on a finite stream")
			return
		}
		// the direct verdict is taken for edits the server ACKNOWLEDGED (and the reference expects to be acknowledged):
		// what an unacknowledged, partly applied request leaves behind is compared with the model only
		if res.loggedIn != expectIn && !(acked && wantAck) {
			c.Note("probe", what)
			c.Corr("login-decision-after-unacknowledged-batch", fmt.Sprint(res.loggedIn), fmt.Sprint(expectIn), false)
			return
		}
		if res.loggedIn != expectIn {
			c.Note("probe", what)
			c.Note("written", short(res.written))
			c.Note("table_now", genCanon)
			if expectIn {
				c.Violation("login-refused-with-valid-credentials", "after the administrator's batched account edit ("+strings.Join(kinds, ", ")+") the connection presenting an existing account's current password was not logged in: "+what)
			} else {
				c.Violation("login-without-valid-credentials", "after the administrator's batched account edit ("+strings.Join(kinds, ", ")+") a connection was logged in although the login condition does not hold: "+what)
			}
			return
		}
		if !res.loggedIn {
			if why, _ := allowedUnauthOutput(res.written, loginID, true, false); why != "" {
				c.Note("probe", what)
				c.Violation("unauthenticated-peer-was-answered", why)
				return
			}
		}
		// the Session model on the table after the batch
		var pwField []byte
		if !p.absent {
			pwField = p.pw
			if pwField == nil {
				pwField = []byte{}
			}
		}
		lt := loginTranWire(107, loginID, hotline.EncodeString([]byte(p.login)), pwField, fld(hotline.FieldUserName, []byte("probe")))
		data := append(append([]byte{}, clientHandshake...), encTran(lt)...)
		data = append(data, encTran(tranOf(300, 0x61000000))...)
		m := parseSessModel(askSession(c, "session", addr, now.UnixNano(), 0, after, nil, [][]byte{data}))
		if m.DispOK {
			c.Corr("login-decision-after-batch", fmt.Sprint(res.loggedIn), fmt.Sprint(m.In), false)
		}
		c.Evals(1)
	}
	c.Nontrivial(fmt.Sprintf("batch|%s|%x", strings.Join(kinds, ","), fnv64([]byte(sb.String()))))
	c.Sample(map[string]any{"family": "batch-edit-login", "records": kinds, "acknowledged": acked, "probes": len(probes)})
}

func b2i(b bool) int {
	if b {
		return 1
	}
	return 0
}

// ---------------------------------------------------------------- ban-reload-gate

type banEntry struct {
	perm  bool
	until time.Time
}

func (b banEntry) refusedAt(now time.Time) bool { return b.perm || now.Before(b.until) }

func banYAML(m map[string]banEntry) []byte {
	out := map[string]*time.Time{}
	for ip, e := range m {
		if e.perm {
			out[ip] = nil
		} else {
			u := e.until
			out[ip] = &u
		}
	}
	b, _ := yaml.Marshal(out)
	return b
}

func banSpecs(m map[string]banEntry) []banSpec {
	var ips []string
	for ip := range m {
		ips = append(ips, ip)
	}
	sort.Strings(ips)
	var out []banSpec
	for _, ip := range ips {
		e := m[ip]
		if e.perm {
			out = append(out, banSpec{IP: ip, Perm: true})
		} else {
			out = append(out, banSpec{IP: ip, Until: e.until.UnixNano()})
		}
	}
	return out
}

func c04BanReloadFamily(c *Case) {
	r := c.R
	if tooManyStalls(c) {
		c.Dist("skipped/after-repeated-stalls")
		return
	}
	ts, err := newTS(TSOpt{Board: "old news\r", Agreement: "agree"})
	if err != nil {
		c.Note("fixture", err.Error())
		c.Dist("skipped/fixture")
		return
	}
	defer ts.Close()
	now := time.Now()
	mkEntry := func() banEntry {
		switch r.Intn(4) {
		case 0:
			return banEntry{until: now.Add(time.Duration(1+r.Intn(5)) * time.Hour).Truncate(time.Second)}
		case 1:
			return banEntry{until: now.Add(-time.Duration(1+r.Intn(5)) * time.Hour).Truncate(time.Second)} // expired: not refused
		default:
			return banEntry{perm: true}
		}
	}
	ip := func(i int) string { return fmt.Sprintf("%d.%d.%d.%d", 20+i, r.Intn(256), r.Intn(256), 1+r.Intn(254)) }
	// address classes: kept (same entry before and after), dropped by the operator, added by the operator, never listed
	oldList, newList := map[string]banEntry{}, map[string]banEntry{}
	var kept, dropped, added, never []string
	for i, n := 0, 1+r.Intn(3); i < n; i++ {
		a := ip(len(oldList) + len(newList))
		e := mkEntry()
		oldList[a], newList[a] = e, e
		kept = append(kept, a)
	}
	for i, n := 0, r.Intn(3); i < n; i++ {
		a := ip(10 + i)
		oldList[a] = mkEntry()
		dropped = append(dropped, a)
	}
	for i, n := 0, r.Intn(3); i < n; i++ {
		a := ip(20 + i)
		newList[a] = mkEntry()
		added = append(added, a)
	}
	for i := 0; i < 2; i++ {
		never = append(never, ip(30+i))
	}
	c.Note("bans_before", fmt.Sprint(banSpecs(oldList)))
	c.Note("bans_in_the_operators_file", fmt.Sprint(banSpecs(newList)))
	c.Note("now_unix_ns", now.UnixNano())
	// the bans before the reload were entered through the real BanFile.Add (as the disconnect handler does)
	for a, e := range oldList {
		if e.perm {
			ts.Bans.Add(a, nil)
		} else {
			u := e.until
			ts.Bans.Add(a, &u)
		}
	}
	// the operator replaces the file; the harness makes its read slow: a FIFO delivers the new content when told to
	path := filepath.Join(ts.Cfg, "Banlist.yaml")
	os.Remove(path)
	if err := syscall.Mkfifo(path, 0644); err != nil {
		c.Note("fixture", err.Error())
		c.Dist("skipped/fixture")
		return
	}
	reloadDone := make(chan struct{})
	var reloadErr error
	go func() {
		defer close(reloadDone)
		// the sequence of cmd/mobius-hotline-server's reloadFunc (SIGHUP, /api/v1/reload)
		_ = ts.Board.Reload()
		reloadErr = ts.Bans.Load()
		_ = ts.News.Load()
		_ = ts.Agree.Reload()
	}()
	// event: the reload has the file open (a FIFO can be opened for writing without blocking only then)
	var wfd *os.File
	opened := waitFor(15*time.Second, func() bool {
		fd, err := syscall.Open(path, syscall.O_WRONLY|syscall.O_NONBLOCK, 0)
		if err != nil {
			return false
		}
		wfd = os.NewFile(uintptr(fd), path)
		return true
	})
	feed := func() {
		if wfd != nil {
			syscall.SetNonblock(int(wfd.Fd()), false)
			wfd.Write(banYAML(newList))
			wfd.Close()
			wfd = nil
		}
	}
	if !opened {
		// the reload never opened the file: release it whatever it does, and skip
		if fd, err := syscall.Open(path, syscall.O_RDWR|syscall.O_NONBLOCK, 0); err == nil {
			f := os.NewFile(uintptr(fd), path)
			f.Write(banYAML(newList))
			select {
			case <-reloadDone:
			case <-time.After(5 * time.Second):
			}
			f.Close()
		}
		c.Dist("skipped/reload-did-not-open-the-file")
		stalls.Add(1)
		return
	}
	// ---- connections arriving while the reload is reading the file
	type attempt struct {
		addr, class string
		phase       string
		res         probeRes
		started     chan struct{}
	}
	var during, afterA []*attempt
	mk := func(phase string) []*attempt {
		var out []*attempt
		add := func(class string, ips []string) {
			for _, a := range ips {
				if phase == "during" && class != "kept" && r.Chance(40) {
					continue
				}
				out = append(out, &attempt{addr: fmt.Sprintf("%s:%d", a, 1024+r.Intn(60000)), class: class, phase: phase})
			}
		}
		add("kept", kept)
		add("dropped", dropped)
		add("added", added)
		add("never", never)
		return out
	}
	during = mk("during")
	var wg sync.WaitGroup
	ids := uint32(100)
	launch := func(as []*attempt) {
		for _, a := range as {
			ids++
			id := ids
			wg.Add(1)
			go func(a *attempt, id uint32) {
				defer wg.Done()
				a.res = probeLogin(ts, a.addr, "guest", []byte{}, false, id, 60*time.Second)
			}(a, id)
		}
	}
	launch(during)
	// give them the chance to reach the gate while the list is being re-read: either they finish (served or refused
	// at once) or they wait for the reload; no verdict depends on this pause
	time.Sleep(time.Duration(40+r.Intn(60)) * time.Millisecond)
	feed()
	select {
	case <-reloadDone:
	case <-time.After(20 * time.Second):
		c.Dist("skipped/reload-did-not-finish")
		stalls.Add(1)
		wg.Wait()
		return
	}
	wg.Wait()
	if reloadErr != nil {
		c.Note("reload_error", reloadErr.Error())
		c.Disagree("reload-failed", "BanFile.Load failed on the list the harness wrote")
		return
	}
	afterA = mk("after")
	launch(afterA)
	wg.Wait()
	// ---- judge
	entryAfter := func(a string) (banEntry, bool) { e, ok := newList[a]; return e, ok }
	var evs []string
	nEv := 0
	ev := func(s string) { evs = append(evs, s); nEv++ }
	ev(fmt.Sprintf("E %d%s", len(newList), func() string {
		var sb strings.Builder
		for _, b := range banSpecs(newList) {
			k := "t"
			if b.Perm {
				k = "p"
			}
			fmt.Fprintf(&sb, " %s %s %d", hx([]byte(b.IP)), k, b.Until)
		}
		return sb.String()
	}()))
	ev("L")
	ev("R")
	ev("U")
	var implObs []byte
	for _, a := range append(append([]*attempt{}, during...), afterA...) {
		ipOnly := strings.Split(a.addr, ":")[0]
		ev(fmt.Sprintf("C %s %d", hx([]byte(ipOnly)), now.UnixNano()))
		if a.res.loggedIn {
			implObs = append(implObs, '0')
		} else {
			implObs = append(implObs, '1')
		}
		c.Dist("attempt/" + a.phase + "/" + a.class)
		c.Evals(1)
		what := fmt.Sprintf("connection from %s (%s by the operator's edit) arriving %s the reload", ipOnly, a.class, a.phase)
		if !a.res.done {
			c.Note("attempt", what)
			c.Violation("prelogin-hang", "handleNewConnection did not return although the reload had finished")
			return
		}
		eOld, inOld := oldList[ipOnly]
		eNew, inNew := entryAfter(ipOnly)
		refOld := inOld && eOld.refusedAt(now)
		refNew := inNew && eNew.refusedAt(now)
		var must, mustNot bool
		if a.phase == "after" {
			must, mustNot = refNew, !refNew
		} else {
			must, mustNot = refOld && refNew, !refOld && !refNew
		}
		if must && a.res.loggedIn {
			c.Note("attempt", what)
			c.Note("written", short(a.res.written))
			c.Violation("banned-address-served-across-reload", "an address that is banned before and after the configuration reload was logged in and served: "+what)
			return
		}
		if must {
			if why, _ := allowedUnauthOutput(a.res.written, a.res.loginID, true, true); why != "" {
				c.Note("attempt", what)
				c.Violation("unauthenticated-peer-was-answered", why)
				return
			}
			if len(a.res.written) <= 8 {
				c.Note("attempt", what)
				c.Violation("banned-address-not-told", "a banned address got no ban notice")
				return
			}
		}
		if mustNot && !a.res.loggedIn {
			c.Note("attempt", what)
			c.Note("written", short(a.res.written))
			c.Violation("login-refused-with-valid-credentials", "an address that is not banned (before or after the reload) presenting valid guest credentials was not logged in: "+what)
			return
		}
	}
	// the model: edit, the three steps of Load, then the checks (a connection that arrives during the reload waits for it)
	var sb strings.Builder
	fmt.Fprintf(&sb, "banreload %d", len(oldList))
	for _, b := range banSpecs(oldList) {
		k := "t"
		if b.Perm {
			k = "p"
		}
		fmt.Fprintf(&sb, " %s %s %d", hx([]byte(b.IP)), k, b.Until)
	}
	fmt.Fprintf(&sb, " %d %s", nEv, strings.Join(evs, " "))
	mans := c.O.Ask(sb.String())
	c.Note("model", clip(mans))
	c.Corr("gate-across-reload", "ok obs="+string(implObs)+" idle=1", mans, false)
	c.Nontrivial(fmt.Sprintf("reload|%x", fnv64([]byte(sb.String()))))
	c.Sample(map[string]any{"family": "ban-reload-gate", "kept": len(kept), "dropped": len(dropped), "added": len(added), "during": len(during), "after": len(afterA)})
}
