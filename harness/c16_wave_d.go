//go:build c16

package main

// C16, wave d: the privilege bytes of an account EDIT, from the request's bytes to memory, file and restart.
//
//   * edit-through-wire — new-user / set-user / update-user (modify, rename, create) requests are serialised, parsed
//     back by the real Transaction.Write (as the connection loop does) and handled by the real handlers, whose
//     update-user path scans the sub-fields a second time.  Fields and sub-fields of 4000 .. 60000 bytes (name,
//     oversized privilege field, filler fields of unknown types) stand in every position relative to the 8 privilege
//     bytes, in every order, up to the 64 KiB a connection delivers.  Judged directly: the 8 bytes sent = the
//     account's bitmap in memory = the get-user reply = the named flags in the account file = the bitmap after a
//     restart (on the defined privileges), and against the Lean model run on the same BYTES (`c16edit`).
//   * failed-save — the same edits (and Create / Update on the account manager itself) while the store's temporary
//     file cannot be written: the edit is not persisted, so memory must still hold what the file holds
//     (model: `Accounts.stepF`, theorem `privileges_same_in_memory_and_file`).

import (
	"bytes"
	"encoding/binary"
	"fmt"
	"os"
	"path/filepath"
	"sort"
	"strings"

	"github.com/jhalter/mobius/hotline"
)

func c16BigBytes(r *RNG, n int) []byte {
	const al = "abcdefghijklmnopqrstuvwxyzABCDEFGHIJKLMNOPQRSTUVWXYZ0123456789"
	b := make([]byte, n)
	s := r.U64() | 1
	for i := range b {
		s = s*6364136223846793005 + 1442695040888963407
		b[i] = al[(s>>33)%uint64(len(al))]
	}
	return b
}

type c16F struct {
	ty   [2]byte
	data []byte
}

func c16Enc(fs []c16F) []byte {
	b := be16(len(fs))
	for _, f := range fs {
		b = append(b, f.ty[:]...)
		b = append(b, be16(len(f.data))...)
		b = append(b, f.data...)
	}
	return b
}

// c16Shape: filler fields and a large name around the given fields, then a random order.
func c16Shape(c *Case, fs []c16F, budget int) []c16F {
	r := c.R
	for _, f := range fs {
		budget -= 4 + len(f.data)
	}
	for i, n := 0, r.Pick(0, 1, 1, 2); i < n; i++ {
		sz := r.Pick(0, 9, 4000, 4088, 4096, 5000, 30000, 60000)
		if sz > budget-300 {
			sz = budget - 300
		}
		if sz < 0 {
			break
		}
		fs = append(fs, c16F{[2]byte{3, byte(132 + i)}, c16BigBytes(r, sz)})
		budget -= 4 + sz
		c.Dist(fmt.Sprintf("edit/filler-%05d", sz/4096*4096))
	}
	for i := len(fs) - 1; i > 0; i-- {
		j := r.Intn(i + 1)
		fs[i], fs[j] = fs[j], fs[i]
	}
	return fs
}

func c16Fields(fs []c16F) []hotline.Field {
	var out []hotline.Field
	for _, f := range fs {
		out = append(out, hotline.NewField(f.ty, f.data))
	}
	return out
}

// c16Edit builds one account edit that carries the privilege bytes `b1`.  Returns the request, the login that holds
// the account afterwards and the oracle's name for the kind of request.
func c16Edit(c *Case, b1 hotline.AccessBitmap, big bool) (hotline.Transaction, string, string) {
	r := c.R
	name := []byte("n" + r.Name(8))
	if big {
		name = c16BigBytes(r, r.Pick(12, 3990, 4088, 4096, 5000, 9000))
	}
	access := append([]byte{}, b1[:]...)
	if big && r.Chance(12) {
		access = append(access, c16BigBytes(r, r.Pick(4084, 4090, 5000))...) // the handlers copy the first 8 bytes
	}
	pw := []byte{0}
	if r.Chance(40) {
		pw = []byte{byte(1 + r.Intn(250)), 9, 9}
	}
	budget := 64000
	shape := func(fs []c16F) []c16F {
		if !big {
			return fs
		}
		return c16Shape(c, fs, budget)
	}
	switch r.Intn(5) {
	case 0:
		fs := shape([]c16F{{hotline.FieldUserLogin, obf("fresh")}, {hotline.FieldUserName, name}, {hotline.FieldUserPassword, pw}, {hotline.FieldUserAccess, access}})
		return mkTran(hotline.TranNewUser, 7, c16Fields(fs)...), "fresh", "N"
	case 1:
		fs := shape([]c16F{{hotline.FieldUserLogin, obf("u")}, {hotline.FieldUserName, name}, {hotline.FieldUserPassword, pw}, {hotline.FieldUserAccess, access}})
		return mkTran(hotline.TranSetUser, 7, c16Fields(fs)...), "u", "S"
	case 2: // update-user: modify
		fs := shape([]c16F{{hotline.FieldUserLogin, obf("u")}, {hotline.FieldUserName, name}, {hotline.FieldUserPassword, pw}, {hotline.FieldUserAccess, access}})
		return mkTran(hotline.TranUpdateUser, 7, hotline.NewField(hotline.FieldData, c16Enc(fs))), "u", "U"
	case 3: // update-user: rename
		fs := shape([]c16F{{hotline.FieldData, obf("u")}, {hotline.FieldUserLogin, obf("renamed")}, {hotline.FieldUserName, name}, {hotline.FieldUserPassword, pw}, {hotline.FieldUserAccess, access}})
		return mkTran(hotline.TranUpdateUser, 7, hotline.NewField(hotline.FieldData, c16Enc(fs))), "renamed", "U"
	default: // update-user: create
		fs := shape([]c16F{{hotline.FieldUserLogin, obf("fresh")}, {hotline.FieldUserName, name}, {hotline.FieldUserPassword, []byte{5, 6}}, {hotline.FieldUserAccess, access}})
		return mkTran(hotline.TranUpdateUser, 7, hotline.NewField(hotline.FieldData, c16Enc(fs))), "fresh", "U"
	}
}

func c16EditThroughWire(c *Case) {
	r := c.R
	b0 := hotline.AccessBitmap(maskDefined(randBitmap(r)))
	b1 := hotline.AccessBitmap(maskDefined(randBitmap(r)))
	if c.Idx < 40 {
		b1 = hotline.AccessBitmap(bmOf(definedPrivs[c.Idx]))
	}
	ts, err := newTS(TSOpt{Direct: true, Accounts: []AcctSpec{
		{Login: "u", Name: "u", Password: "", Access: b0},
		{Login: "admin", Name: "admin", Password: "", Access: allOnes()},
	}})
	if err != nil {
		c.Disagree("fixture", "test server could not be built")
		return
	}
	defer ts.Close()
	ad, _ := ts.DirectClient("admin", []byte("admin"), "10.0.0.2:1")
	t, target, kind := c16Edit(c, b1, true)
	raw := encTran(t)
	c.Note("before", bmHex(b0))
	c.Note("sent", bmHex(b1))
	c.Note("request_kind", kind)
	c.Note("request_bytes", len(raw))
	c.Note("target_login", target)
	if len(raw) >= 65536 {
		c.Disagree("generator-request-too-large", "the generator produced a request a connection cannot deliver")
		return
	}
	var p hotline.Transaction
	if _, err := p.Write(append([]byte{}, raw...)); err != nil {
		c.Note("error", err.Error())
		c.Violation("request-not-parsed", "a well-formed account request is rejected by the wire parser")
		return
	}
	res, _, pan := ts.Call(ad, p)
	if pan != nil || len(res) == 0 || res[len(res)-1].ErrorCode != [4]byte{} {
		c.Note("panic", fmt.Sprint(pan))
		c.Note("request", short(raw))
		c.Violation("edit-refused", "a well-formed account edit by an administrator holding every privilege is not acknowledged")
		return
	}
	c.Dist(fmt.Sprintf("edit/%s/bytes-%05d", kind, len(raw)/8192*8192))
	// the model on the same bytes
	model := c.AskS("c16edit", kind, bmHex(b0), hx(raw))
	mem := ts.Acct.Get(target)
	if mem == nil {
		c.Note("request", short(raw))
		c.Violation("edit-wire-memory", fmt.Sprintf("after the acknowledged edit there is no account %q in memory", target))
		return
	}
	fail := func(key, what string, got [8]byte) {
		c.Note("got", bmHex(got))
		c.Note("request", short(raw))
		c.Violation(key, what)
	}
	if mem.Access != b1 {
		fail("edit-wire-memory", "the account in memory does not hold the 8 privilege bytes the request carried", mem.Access)
	}
	for i := 0; i < 64; i++ {
		if mem.Access.IsSet(i) != bitOf(b1, i) {
			c.Note("privilege", i)
			fail("edit-wire-authorization", fmt.Sprintf("privilege %d is decided differently from the bit the request carried", i), mem.Access)
			break
		}
	}
	disk, err := readAccountFile(ts.Users, target)
	if err != nil {
		c.Note("error", err.Error())
		c.Violation("edit-wire-disk", "after the acknowledged edit the account file cannot be read")
		return
	}
	if disk.Access != b1 {
		fail("edit-wire-disk", "the account file does not hold (under their names) the privileges the request carried", disk.Access)
	}
	am2, err := loadAccountsDir(ts.Users)
	if err != nil || am2.Get(target) == nil {
		c.Violation("edit-wire-reload", "after the edit the account cannot be loaded from the directory")
		return
	}
	if got := am2.Get(target).Access; got != b1 {
		fail("edit-wire-reload", "after a restart the account holds other privileges than the request carried", got)
	}
	// get-user: the wire again
	gres, _, _ := ts.Call(ad, mkTran(hotline.TranGetUser, 9, fld(hotline.FieldUserLogin, []byte(target))))
	for _, gt := range gres {
		for _, f := range gt.Fields {
			if f.Type == hotline.FieldUserAccess && !bytes.Equal(f.Data, b1[:]) {
				c.Note("getuser", hx(f.Data))
				c.Violation("getuser-access", "the get-user reply does not carry the privilege bytes the edit carried")
			}
		}
	}
	// the model's accounts after the request: the edited one (u, renamed or fresh) and, for a creation, the untouched u
	implViews := bmHex(mem.Access) + " " + bmHex(disk.Access)
	if target == "fresh" {
		if u := ts.Acct.Get("u"); u != nil {
			if du, err := readAccountFile(ts.Users, "u"); err == nil {
				implViews = implViews + "|" + bmHex(u.Access) + " " + bmHex(du.Access)
			}
		}
	}
	c.Corr("edit-model", sortedJoin(implViews), sortedJoin(model), false)
	c.Nontrivial(fmt.Sprintf("edit:%s:%s:%d:%s", kind, target, len(raw)/1024, bmHex(b1)))
}

// c16BlockTemp: the account store's temporary file cannot be written (a non-empty directory occupies its name).
func c16BlockTemp(users string) func() {
	d := filepath.Join(users, ".account.tmp")
	os.Remove(d)
	os.Mkdir(d, 0755)
	os.WriteFile(filepath.Join(d, "occupied"), []byte("x"), 0644)
	return func() { os.RemoveAll(d) }
}

func c16FailedSave(c *Case) {
	r := c.R
	b0 := hotline.AccessBitmap(maskDefined(randBitmap(r)))
	b1 := hotline.AccessBitmap(maskDefined(randBitmap(r)))
	switch r.Intn(3) {
	case 0:
		b1 = hotline.AccessBitmap(withBit(b0, definedPrivs[r.Intn(40)]))
	case 1:
		b1 = hotline.AccessBitmap(withoutBit(b0, definedPrivs[r.Intn(40)]))
	}
	ts, err := newTS(TSOpt{Direct: true, Accounts: []AcctSpec{
		{Login: "u", Name: "u", Password: "", Access: b0},
		{Login: "admin", Name: "admin", Password: "", Access: allOnes()},
	}})
	if err != nil {
		c.Disagree("fixture", "test server could not be built")
		return
	}
	defer ts.Close()
	ad, _ := ts.DirectClient("admin", []byte("admin"), "10.0.0.2:1")
	sess, _ := ts.DirectClient("u", []byte("u"), "10.3.3.1:1")
	c.Note("before", bmHex(b0))
	c.Note("requested", bmHex(b1))
	lift := c16BlockTemp(ts.Users)
	var what, kind string
	target := "u"
	reported := false
	switch r.Intn(5) {
	case 0:
		a := ts.Acct.Get("u")
		a.Access = b1
		reported = ts.Acct.Update(*a, "u") != nil
		what, kind = "Update on the account manager", "S"
	case 1:
		target = "fresh"
		reported = ts.Acct.Create(hotline.Account{Login: "fresh", Name: "f", Password: "x", Access: b1}) != nil
		what, kind = "Create on the account manager", "N"
	case 2:
		res, _, _ := ts.Call(ad, mkTran(hotline.TranSetUser, 5, fld(hotline.FieldUserLogin, obf("u")), fld(hotline.FieldUserName, []byte("u")),
			fld(hotline.FieldUserPassword, []byte{0}), fld(hotline.FieldUserAccess, b1[:])))
		reported = len(res) == 0 || res[len(res)-1].ErrorCode != [4]byte{}
		what, kind = "set-user", "S"
	case 3:
		rec := c16Enc([]c16F{{hotline.FieldUserLogin, obf("u")}, {hotline.FieldUserName, []byte("u")}, {hotline.FieldUserPassword, []byte{0}}, {hotline.FieldUserAccess, b1[:]}})
		res, _, _ := ts.Call(ad, mkTran(hotline.TranUpdateUser, 5, hotline.NewField(hotline.FieldData, rec)))
		reported = len(res) == 0 || res[len(res)-1].ErrorCode != [4]byte{}
		what, kind = "update-user (modify)", "U"
	default:
		target = "fresh"
		res, _, _ := ts.Call(ad, mkTran(hotline.TranNewUser, 5, fld(hotline.FieldUserLogin, obf("fresh")), fld(hotline.FieldUserName, []byte("f")),
			fld(hotline.FieldUserPassword, []byte{1}), fld(hotline.FieldUserAccess, b1[:])))
		reported = len(res) == 0 || res[len(res)-1].ErrorCode != [4]byte{}
		what, kind = "new-user", "N"
	}
	lift()
	c.Note("operation", what)
	c.Note("error_reported", reported)
	c.Dist("failed-save/" + what)
	mem := ts.Acct.Get(target)
	disk, derr := readAccountFile(ts.Users, target)
	am2, lerr := loadAccountsDir(ts.Users)
	if lerr != nil {
		c.Note("error", lerr.Error())
		c.Violation("failed-save-unloadable", "after a failed save the account directory cannot be loaded")
		return
	}
	re := am2.Get(target)
	switch {
	case mem == nil && derr != nil && re == nil:
		// the account exists nowhere: consistent
	case mem == nil || derr != nil || re == nil:
		c.Note("in_memory", mem != nil)
		c.Note("on_disk", derr == nil)
		c.Note("after_restart", re != nil)
		c.Violation("failed-save-memory-differs-from-file", fmt.Sprintf("after %s while the temporary account file could not be written, account %q exists in some of memory / file / restart only", what, target))
	case mem.Access != disk.Access || re.Access != mem.Access:
		c.Note("memory", bmHex(mem.Access))
		c.Note("file", bmHex(disk.Access))
		c.Note("after_restart", bmHex(re.Access))
		c.Violation("failed-save-memory-differs-from-file", fmt.Sprintf("after %s while the temporary account file could not be written, the privileges in memory (sent to clients, used for new logins) are not those in the account file", what))
	}
	_ = sess
	implS := "absent"
	if mem != nil && derr == nil {
		implS = bmHex(mem.Access) + " " + bmHex(disk.Access)
	}
	c.Corr("failed-save-model", implS, c.AskS("c16failedsave", kind, bmHex(b0), bmHex(b1)), false)
	c.Nontrivial(fmt.Sprintf("failed-save:%s:%s:%s", what, bmHex(b0), bmHex(b1)))
}

func sortedJoin(s string) string {
	p := strings.Split(s, "|")
	sort.Strings(p)
	return strings.Join(p, "|")
}

var _ = binary.BigEndian
