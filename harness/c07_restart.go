//go:build c07

package main

// C07, wave d: histories of account requests that include RESTARTS.
//
// A login supplied by a client does not only become a path when the request is handled: it is stored inside the account
// file, and the account loader (mobius.NewYAMLAccountManager — what the server binary runs at start-up) turns the stored
// login into a path again when it finds a file whose name does not match it (the repair of a rename interrupted by a
// crash) or re-saves a legacy file.  Family accounts-restart creates / renames accounts with hostile logins through the
// real handlers, optionally leaves the state an interrupted rename leaves (file moved, contents not yet rewritten —
// fault injection at exactly the point Update can be killed), then reloads the accounts directory with the REAL loader,
// and goes on deleting / renaming the same logins on the reloaded manager; after every request and every restart the
// snapshot of everything outside Users/ must be unchanged (canaries at the un-anchored locations in half of the
// cases, free in the other half: a raw join shows as a removed / overwritten canary or as a new file).  The names in
// Users/ after each restart are compared with the model's loader (oracle op acctload).

import (
	"bytes"
	"fmt"
	"os"
	"path/filepath"
	"sort"
	"strings"

	"github.com/jhalter/mobius/hotline"
	"github.com/jhalter/mobius/internal/mobius"
	"gopkg.in/yaml.v3"
)

// c07LoaderView lists what the loader's glob will match, in its order: base name, login inside, legacy format.
func c07LoaderView(users string) (toks []string, ok bool) {
	matches, err := filepath.Glob(filepath.Join(users, "*.yaml"))
	if err != nil {
		return nil, false
	}
	sort.Strings(matches)
	for _, m := range matches {
		b, err := os.ReadFile(m)
		if err != nil {
			return nil, false
		}
		var a hotline.Account
		if yaml.Unmarshal(b, &a) != nil {
			return nil, false
		}
		legacy := "0"
		if !strings.Contains(string(b), "    DownloadFile:") {
			legacy = "1"
		}
		toks = append(toks, hx([]byte(filepath.Base(m))), hx([]byte(a.Login)), legacy)
	}
	return toks, true
}

// c07UsersNow renders Users/ the way the oracle's acctload answers: "<n> name:login …" sorted.
func c07UsersNow(users string) string {
	es, err := os.ReadDir(users)
	if err != nil {
		return "ERR " + err.Error()
	}
	var out []string
	for _, e := range es {
		n := e.Name()
		if !strings.HasSuffix(n, ".yaml") {
			if e.IsDir() {
				out = append(out, "deep:"+hx([]byte(n)))
			}
			continue // canary text files of the sandbox, the (removed) temporary file
		}
		b, err := os.ReadFile(filepath.Join(users, n))
		var a hotline.Account
		if err != nil || yaml.Unmarshal(b, &a) != nil {
			out = append(out, hx([]byte(n))+":?")
			continue
		}
		out = append(out, hx([]byte(n))+":"+hx([]byte(a.Login)))
	}
	sort.Strings(out)
	return fmt.Sprintf("%d %s", len(out), strings.Join(out, " "))
}

func sortOracleList(ans string) string {
	f := strings.Fields(ans)
	if len(f) == 0 {
		return ans
	}
	rest := append([]string{}, f[1:]...)
	sort.Strings(rest)
	return fmt.Sprintf("%s %s", f[0], strings.Join(rest, " "))
}

func c07AccountsRestart(c *Case) {
	r := c.R
	ts, err := newTS(TSOpt{Direct: true,
		Accounts: []AcctSpec{{Login: "admin", Name: "admin", Password: "", Access: allAccess()}, {Login: "bob", Name: "bob", Password: "", Access: guestAccess()}}})
	if err != nil {
		c.Disagree("fixture", "cannot build the test server: "+err.Error())
		return
	}
	defer ts.Close()
	box := c07Sandbox(r, ts)
	os.Remove(filepath.Join(ts.Users, box.marker+".txt")) // keep Users/ to account files (the glob ignores it anyway)
	cc, _ := ts.DirectClient("admin", []byte("admin"), "127.0.0.1:1")
	acc := cc.Account.Access
	plantCanaries := r.Bool()
	c.Dist(fmt.Sprintf("restart/canaries-at-unanchored-locations=%v", plantCanaries))
	before := box.outside(ts.Users)
	var trace []string
	hostileLogin := func() []byte {
		switch r.Intn(10) {
		case 0, 1, 2:
			return []byte(r.Pick2("../../evil", "../x", "../victim", "../../x", "../config", "../../outside", "../Files/a", "x/../../victim", "../../../up3",
				"../Users2", "./../y", "..//z", "../../o4x", "/abs", "a/../../b"))
		case 3:
			return []byte(strings.Repeat("../", 1+r.Intn(5)) + r.Pick2("evil", "x", "victim", "outside", "config", "o3"))
		case 4:
			return []byte(r.Pick2("carol", "dave", "new user", "erin"))
		case 5:
			return []byte(r.Pick2("..", ".", "/", "../..", "../.", "a/b", "../a/b"))
		default:
			return box.hostile(r)
		}
	}
	plant := func(l []byte) {
		if !plantCanaries {
			return
		}
		for _, p := range []string{filepath.Join(ts.Users, string(l)+".yaml"), filepath.Join(ts.Users, string(l)) + ".yaml"} {
			if !osAccepts(p) || !strings.HasPrefix(p, ts.Dir+"/") || strings.HasPrefix(p, ts.Users+"/") || p == ts.Users {
				continue
			}
			if _, err := os.Lstat(p); err == nil {
				continue
			}
			if fi, err := os.Stat(filepath.Dir(p)); err != nil || !fi.IsDir() {
				continue
			}
			if os.WriteFile(p, []byte(box.marker+" unanchored account path"), 0644) == nil {
				c.Dist("restart/canary-planted")
			}
		}
		before = box.outside(ts.Users)
	}
	check := func(what string) bool {
		after := box.outside(ts.Users)
		if after == before {
			return true
		}
		c.Note("step", what)
		c.Note("outside_diff", diffLines(before, after))
		c.Note("history", trace)
		key := "escape-account-" + strings.Fields(what)[0]
		c.Violation(key, "an account request or the account loader changed something outside the accounts directory")
		return false
	}
	var known [][]byte // logins the manager currently holds (besides admin)
	known = append(known, []byte("bob"))
	call := func(what string, t hotline.Transaction) string {
		res, _, pan := ts.Call(cc, t)
		reply := canonReply("ok", res, pan)
		trace = append(trace, what+" => "+reply)
		if bytes.Contains(replyBytes(res), []byte(box.marker)) {
			c.Violation("disclose-account", "an account reply contains bytes of a file outside the accounts directory")
		}
		return reply
	}
	id := uint32(0)
	rounds := 2 + r.Intn(2)
	for round := 0; round < rounds; round++ {
		for i := 0; i < 2+r.Intn(4); i++ {
			id++
			switch k := r.Intn(10); {
			case k < 4: // create with a hostile login
				l := hostileLogin()
				plant(l)
				what := "newuser " + hx(l)
				var t hotline.Transaction
				if r.Bool() {
					t = mkTran(hotline.TranNewUser, id, fld(hotline.FieldUserLogin, obf(l)), fld(hotline.FieldUserName, []byte("n")),
						fld(hotline.FieldUserPassword, []byte("pw")), fld(hotline.FieldUserAccess, acc[:]))
				} else {
					what = "update-create " + hx(l)
					t = mkTran(hotline.TranUpdateUser, id, fld(hotline.FieldData, subFields(
						fld(hotline.FieldUserLogin, obf(l)), fld(hotline.FieldUserName, []byte("n")),
						fld(hotline.FieldUserPassword, []byte("pw")), fld(hotline.FieldUserAccess, acc[:]))))
				}
				if call(what, t) == "ok" && ts.Acct.Get(string(l)) != nil {
					known = append(known, l)
					c.Dist("restart/created")
				}
				if !check(what) {
					return
				}
			case k < 7 && len(known) > 0: // rename a known account to a hostile login
				j := r.Intn(len(known))
				old, nl := known[j], hostileLogin()
				plant(nl)
				what := "rename " + hx(old) + " -> " + hx(nl)
				t := mkTran(hotline.TranUpdateUser, id, fld(hotline.FieldData, subFields(
					fld(hotline.FieldData, obf(old)), fld(hotline.FieldUserLogin, obf(nl)), fld(hotline.FieldUserName, []byte("n")),
					fld(hotline.FieldUserPassword, []byte{0}), fld(hotline.FieldUserAccess, acc[:]))))
				if call(what, t) == "ok" && ts.Acct.Get(string(nl)) != nil && ts.Acct.Get(string(old)) == nil {
					known[j] = nl
					c.Dist("restart/renamed")
				}
				if !check(what) {
					return
				}
			case k < 9 && len(known) > 0: // delete a known account
				j := r.Intn(len(known))
				l := known[j]
				what := "deleteuser " + hx(l)
				t := mkTran(hotline.TranDeleteUser, id, fld(hotline.FieldUserLogin, obf(l)))
				if r.Bool() {
					what = "update-delete " + hx(l)
					t = mkTran(hotline.TranUpdateUser, id, fld(hotline.FieldData, subFields(fld(hotline.FieldData, obf(l)))))
				}
				if call(what, t) == "ok" && ts.Acct.Get(string(l)) == nil {
					known = append(known[:j], known[j+1:]...)
				}
				if !check(what) {
					return
				}
			default: // a login nobody holds
				l := hostileLogin()
				what := "deleteuser " + hx(l)
				call(what, mkTran(hotline.TranDeleteUser, id, fld(hotline.FieldUserLogin, obf(l))))
				if !check(what) {
					return
				}
			}
		}
		// fault injection: the state a rename interrupted by a crash leaves — the file already carries the name of
		// another (benign) login, its contents still hold the old one
		if r.Chance(50) {
			if ms, _ := filepath.Glob(filepath.Join(ts.Users, "*.yaml")); len(ms) > 0 {
				src := ms[r.Intn(len(ms))]
				if filepath.Base(src) != "admin.yaml" {
					dst := filepath.Join(ts.Users, r.Pick2("moved", "zz-crashed", "Aa", "carol", "evil")+".yaml")
					if _, err := os.Lstat(dst); err != nil && os.Rename(src, dst) == nil {
						trace = append(trace, "crash-during-rename "+filepath.Base(src)+" -> "+filepath.Base(dst))
						c.Dist("restart/interrupted-rename-state")
					}
				}
			}
		}
		// RESTART: the real loader on the accounts directory as it is now
		view, ok := c07LoaderView(ts.Users)
		if !ok {
			c.Dist("restart/skip-unreadable")
			return
		}
		what := fmt.Sprintf("restart #%d", round+1)
		mismatch := 0
		for i := 0; i+2 < len(view); i += 3 {
			name, login := string(unhx(view[i])), string(unhx(view[i+1]))
			if strings.Contains(login, "/") || strings.HasPrefix(login, ".") {
				c.Dist("restart/file-holding-a-login-with-path-elements")
			}
			if name != strings.TrimPrefix(filepath.Join("/", login), "/")+".yaml" {
				mismatch++
			}
		}
		if mismatch > 0 {
			c.Dist("restart/file-name-differs-from-login")
		}
		am, err := mobius.NewYAMLAccountManager(ts.Users)
		trace = append(trace, fmt.Sprintf("%s (%d files) => err=%v", what, len(view)/3, err != nil))
		if !check("restart") {
			return
		}
		c.Nontrivial("restart|" + strings.Join(view, ","))
		if err != nil {
			c.Dist("restart/loader-error")
			return
		}
		// the names in Users/ afterwards, against the model's loader on the same matched files
		allOS := true
		for i := 0; i+2 < len(view); i += 3 {
			if !osAccepts(filepath.Join(ts.Users, filepath.Join("/", string(unhx(view[i+1])))+".yaml")) {
				allOS = false
			}
		}
		if allOS {
			c.Note("history", trace)
			c.Note("matched_files", view)
			c.Corr("account-loader-names", c07UsersNow(ts.Users), sortOracleList(c.AskS("acctload", view...)), false)
		}
		ts.Acct, ts.Srv.AccountManager = am, am
		cc, _ = ts.DirectClient("admin", []byte("admin"), "127.0.0.1:1")
		if cc.Account == nil {
			c.Dist("restart/admin-gone")
			return
		}
		// what the reloaded manager holds
		known = known[:0]
		for _, a := range am.List() {
			if a.Login != "admin" {
				known = append(known, []byte(a.Login))
			}
		}
		sort.Slice(known, func(i, j int) bool { return string(known[i]) < string(known[j]) })
		c.Dist("restart/done")
	}
	c.Sample(map[string]any{"family": "accounts-restart", "history": trace})
}
