//go:build c01

package main

// The tracker registration as the server really sends it: the periodic loop of the server
// (registerWithTrackers) against loopback UDP "trackers"; every configured tracker must receive
// exactly the registration record the layout prescribes for the server's name, description, port,
// pass id and current user count, in every round position (first tracker, second, third).

import (
	"context"
	"fmt"
	"net"
	"time"

)

func init() {
	c01Extra = append(c01Extra, func(x *Ctx) {
		x.Add(&Family{Name: "tracker-registration-live", Quick: 40, Thor: 600, Run: func(c *Case) {
			r := c.R
			name := string(r.Text(1 + sizeBias(r, 200)))
			ts, err := newTS(TSOpt{Direct: true, Name: name})
			if err != nil {
				c.Disagree("fixture", err.Error())
				return
			}
			defer ts.Close()
			nTrk := 1 + r.Intn(3)
			var conns []*net.UDPConn
			var addrs []string
			for i := 0; i < nTrk; i++ {
				pc, err := net.ListenUDP("udp", &net.UDPAddr{IP: net.IPv4(127, 0, 0, 1)})
				if err != nil {
					c.Disagree("fixture", err.Error())
					return
				}
				defer pc.Close()
				conns = append(conns, pc)
				addrs = append(addrs, pc.LocalAddr().String())
			}
			users := r.Intn(4)
			for i := 0; i < users; i++ {
				ts.DirectClient("guest", []byte(fmt.Sprintf("u%d", i)), fmt.Sprintf("10.1.1.%d:1000", i+1))
			}
			ts.Srv.Config.EnableTrackerRegistration = true
			ts.Srv.Config.Trackers = addrs
			ts.Srv.Config.Description = string(r.Text(sizeBias(r, 200)))
			ts.Srv.Port = 1 + r.Intn(65535)
			copy(ts.Srv.TrackerPassID[:], r.Bytes(4))
			want := c.AskS("tracker", fmt.Sprint(ts.Srv.Port), fmt.Sprint(users), hx(ts.Srv.TrackerPassID[:]), hx([]byte(ts.Srv.Config.Name)), hx([]byte(ts.Srv.Config.Description)), hx(nil))
			ctx, cancel := context.WithCancel(context.Background())
			defer cancel()
			go func() {
				defer func() { recover() }()
				ts.Srv.VerifRegisterWithTrackers(ctx) // sleeps 300 s after the first round; the goroutine is abandoned
			}()
			for i, pc := range conns {
				buf := make([]byte, 70000)
				pc.SetReadDeadline(time.Now().Add(3 * time.Second))
				n, _, err := pc.ReadFromUDP(buf)
				got := "nothing-received"
				if err == nil {
					got = hx(buf[:n])
				}
				c.Dist(fmt.Sprintf("tracker-live/position%d/%v", i+1, got == want))
				if got != want {
					c.Note("tracker_position", i+1)
					c.Note("trackers", nTrk)
					c.Note("received", clip(got))
					c.Note("layout", clip(want))
					c.Violation("tracker-registration-on-the-wire", "a configured tracker did not receive the registration record the layout prescribes")
					return
				}
			}
			c.Nontrivial(want + fmt.Sprint(nTrk))
		}})
	})
}
