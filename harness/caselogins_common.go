//go:build c05 || c06

package main

// Wave e (C05, C06): logins that differ only in letter case (or are near-collisions) between what a request names,
// what the account store holds and what live sessions carry.
//
// A world = a real server (direct mode) whose account directory holds, for one base name, SEVERAL spellings as separate
// accounts (bob, Bob, BOB …) and, for a second base name, exactly ONE spelling; one or two sessions are logged in on
// every such account.  An administrator then sends single-account edits (TranSetUser) naming spellings drawn from the
// whole pool — keys and non-keys.  The Lean model `SetUserLogins` runs the same history (oracle op `sulogins`).

import (
	"fmt"
	"strings"

	"github.com/jhalter/mobius/hotline"
)

type clSess struct {
	login string
	cc    *hotline.ClientConn
	nc    *nopConn
	ip    string
}

type clWorld struct {
	ts    *TS
	keys  []string // the logins that are accounts (besides admin / req), in creation order = model order
	pool  []string // every spelling a request may name
	sess  []*clSess
	admin *hotline.ClientConn
	req   *hotline.ClientConn
	toks  []string // the history for the model
	acks  string
	nID   uint32
}

// clVariants: spellings of one base name — [0..3] differ only in letter case, [4..5] are near-collisions.
func clVariants(base string, r *RNG) []string {
	mixed := []byte(base)
	for {
		for i := range mixed {
			if r.Bool() {
				mixed[i] = strings.ToUpper(base)[i]
			} else {
				mixed[i] = base[i]
			}
		}
		m := string(mixed)
		if m != base && m != strings.ToUpper(base) && m != strings.ToUpper(base[:1])+base[1:] {
			break
		}
	}
	return []string{base, strings.ToUpper(base[:1]) + base[1:], strings.ToUpper(base), string(mixed), base + "1", base[:len(base)-1]}
}

func clIsKey(w *clWorld, login string) bool {
	for _, k := range w.keys {
		if k == login {
			return true
		}
	}
	return false
}

// clBuild makes the world.  access(login) gives the initial bitmap of an account.
func clBuild(c *Case, access func(login string) hotline.AccessBitmap) *clWorld {
	r := c.R
	bases := []string{"bob", "alice", "tgt", "maker", "zoe"}
	i := r.Intn(len(bases))
	j := (i + 1 + r.Intn(len(bases)-1)) % len(bases)
	va, vb := clVariants(bases[i], r), clVariants(bases[j], r)
	w := &clWorld{nID: 100}
	// base A: the plain spelling and one or two other case variants exist as SEPARATE accounts
	w.keys = append(w.keys, va[0])
	first := 1 + r.Intn(3)
	w.keys = append(w.keys, va[first])
	if r.Bool() {
		w.keys = append(w.keys, va[1+(first+r.Intn(2))%3])
	}
	if r.Chance(40) {
		w.keys = append(w.keys, va[4])
	}
	// base B: exactly one spelling exists
	w.keys = append(w.keys, vb[r.Intn(4)])
	w.pool = append(append([]string{}, va...), vb...)
	specs := []AcctSpec{
		{Login: "admin", Name: "admin", Password: "", Access: allOnes()},
		{Login: "req", Name: "req", Password: "", Access: bmOf(22)},
	}
	initAcc := map[string]hotline.AccessBitmap{}
	for _, k := range w.keys {
		initAcc[k] = access(k)
		specs = append(specs, AcctSpec{Login: k, Name: "name-" + k, Password: "", Access: initAcc[k]})
		w.toks = append(w.toks, "A:"+hx([]byte(k))+":"+bmHex(initAcc[k]))
	}
	ts, err := newTS(TSOpt{Direct: true, Accounts: specs})
	if err != nil {
		c.Disagree("fixture", "test server could not be built")
		return nil
	}
	w.ts = ts
	for _, k := range w.keys {
		if a := ts.Acct.Get(k); a == nil || a.Login != k || a.Access != initAcc[k] {
			// (a file system that folds case cannot hold bob.yaml next to Bob.yaml)
			c.Note("fixture", "account "+k+" not loaded as written")
			ts.Close()
			return nil
		}
	}
	w.admin, _ = directClientWith(ts, "admin", "10.0.0.2:1000", allOnes())
	w.req, _ = directClientWith(ts, "req", "10.0.0.1:1000", bmOf(22))
	for ki, k := range w.keys {
		n := 1 + r.Intn(2)
		for s := 0; s < n; s++ {
			ip := fmt.Sprintf("10.9.%d.%d", ki+1, s+1)
			cc, nc := directClientWith(ts, k, ip+":4000", initAcc[k])
			w.sess = append(w.sess, &clSess{login: k, cc: cc, nc: nc, ip: ip})
			w.toks = append(w.toks, "L:"+hx([]byte(k)))
		}
	}
	c.Note("accounts", strings.Join(w.keys, ","))
	return w
}

func (w *clWorld) stored(login string) *hotline.Account { return w.ts.Acct.Get(login) }

// state renders accounts (model order) and sessions (login order) the way the oracle's `sulogins` does.
func (w *clWorld) state() string {
	var as, ss []string
	for _, k := range w.keys {
		if a := w.stored(k); a != nil && a.Login == k {
			as = append(as, hx([]byte(k))+":"+bmHex(a.Access))
		} else {
			as = append(as, hx([]byte(k))+":missing")
		}
	}
	for _, s := range w.sess {
		ss = append(ss, hx([]byte(s.cc.Account.Login))+":"+bmHex(s.cc.Account.Access))
	}
	acks := w.acks
	if acks == "" {
		acks = "-"
	}
	return "acks=" + acks + " accts=" + strings.Join(as, ",") + " sess=" + strings.Join(ss, ",")
}

type clEdit struct {
	named    string
	now      hotline.AccessBitmap
	isKey    bool
	ack      bool
	pan      any
	sessPrev []hotline.AccessBitmap          // every session's access before the edit
	acctPrev map[string]hotline.AccessBitmap // every stored account before the edit
	pushed   map[hotline.ClientID]bool       // sessions that were sent TranUserAccess
}

// edit sends the administrator's TranSetUser naming `named` and records what was there before.
func (w *clWorld) edit(c *Case, named string, now hotline.AccessBitmap) *clEdit {
	e := &clEdit{named: named, now: now, isKey: clIsKey(w, named), acctPrev: map[string]hotline.AccessBitmap{}, pushed: map[hotline.ClientID]bool{}}
	for _, s := range w.sess {
		e.sessPrev = append(e.sessPrev, s.cc.Account.Access)
	}
	for _, k := range w.keys {
		if a := w.stored(k); a != nil {
			e.acctPrev[k] = a.Access
		}
	}
	w.nID++
	var res []hotline.Transaction
	res, _, e.pan = w.ts.Call(w.admin, mkTran(hotline.TranSetUser, w.nID, fld(hotline.FieldUserLogin, obf(named)), fld(hotline.FieldUserName, []byte("name-"+named)),
		fld(hotline.FieldUserPassword, []byte{0}), fld(hotline.FieldUserAccess, now[:])))
	rep, others := requesterReplies(res, w.admin)
	e.ack = len(rep) == 1 && !isErrReply(rep[0])
	for _, t := range others {
		if t.Type == hotline.TranUserAccess {
			e.pushed[t.ClientID] = true
		}
	}
	w.toks = append(w.toks, "S:"+hx([]byte(named))+":"+bmHex(now))
	if e.ack {
		w.acks += "1"
	} else {
		w.acks += "0"
	}
	return e
}

// pickNamed draws the login an edit names: mostly spellings around the accounts that exist.
func (w *clWorld) pickNamed(r *RNG) string { return w.pool[r.Intn(len(w.pool))] }

func clDescribe(e *clEdit) string {
	k := "not an account"
	if e.isKey {
		k = "an account"
	}
	return fmt.Sprintf("set-user naming %q (%s) := %s", e.named, k, bmHex(e.now))
}
