//go:build c14 || c17

package main

// The "kick window" history shared by C14 and C17 (each judges it with its own predicate):
//
//   an administrator disconnects user U (with or without a ban option); the handler answers and schedules
//   `clientConn.Disconnect()` one second later on a goroutine of its own; U's client closes its own connection
//   during that second (U's connection handler runs its deferred Disconnect: U leaves the table, the others are
//   told); 1-3 other clients from OTHER addresses log in; the timer fires (the second, delayed Disconnect, aimed at
//   a connection that is already gone); everybody sends requests.
//
// The schedule is forced, not hoped for: the server's ClientMgr (an interface field) is wrapped; a Delete that is
// not made by a connection's own handler goroutine (no handleNewConnection frame on its stack: the delayed
// goroutines of HandleDisconnectUser / HandleDeleteUser / HandleUpdateUser) is held at a gate until the newcomers
// have logged in.  `time.Sleep(1 s)` only promises "at least one second", so every such delay is a legal schedule.
// Every wait is event-driven with a huge bound; a wait that runs out makes the case a skip or a recorded stall,
// never by itself a finding about latency.
//
// Flavours: ids as they come (low ids), or the 16-bit id counter advanced by real Add/Delete calls on the exported
// client manager ("65 5xx connections came and went") until the allocator's next candidate is U's id.

import (
	"bytes"
	"encoding/binary"
	"fmt"
	"io"
	"os"
	"runtime"
	"strings"
	"sync"
	"time"

	"github.com/jhalter/mobius/hotline"
)

const kwWait = 120 * time.Second // bound on waits for something the server must eventually do (no latency is asserted)

type kickEvent struct {
	Kind   string // add | own-delete | delayed-delete
	ID     int
	Addr   string // add: the address registered; delete: the address of the connection that held the id when the delete ran ("" = nobody)
	Serial int    // add: order of registration; delete: order of registration of the connection removed (-1 = nobody)
}

type kickMgr struct {
	hotline.ClientManager
	mu      sync.Mutex
	gate    chan struct{}
	opened  bool
	events  []kickEvent
	serials map[*hotline.ClientConn]int
	held    int
	passed  int
}

func newKickMgr(inner hotline.ClientManager) *kickMgr {
	return &kickMgr{ClientManager: inner, gate: make(chan struct{}), serials: map[*hotline.ClientConn]int{}}
}

func (m *kickMgr) Add(cc *hotline.ClientConn) {
	m.ClientManager.Add(cc)
	m.mu.Lock()
	m.serials[cc] = len(m.serials)
	m.events = append(m.events, kickEvent{"add", int(binary.BigEndian.Uint16(cc.ID[:])), cc.RemoteAddr, m.serials[cc]})
	m.mu.Unlock()
}

// onConnectionGoroutine: is this call made (directly or from a deferred call) by a connection's own handler?
func onConnectionGoroutine() bool {
	pcs := make([]uintptr, 64)
	n := runtime.Callers(2, pcs)
	frames := runtime.CallersFrames(pcs[:n])
	for {
		f, more := frames.Next()
		if strings.HasSuffix(f.Function, ".handleNewConnection") {
			return true
		}
		if !more {
			return false
		}
	}
}

func (m *kickMgr) Delete(id hotline.ClientID) {
	own := onConnectionGoroutine()
	if !own {
		m.mu.Lock()
		m.held++
		m.mu.Unlock()
		select {
		case <-m.gate:
		case <-time.After(kwWait):
		}
	}
	victim := m.ClientManager.Get(id)
	m.ClientManager.Delete(id)
	m.mu.Lock()
	ev := kickEvent{"delayed-delete", int(binary.BigEndian.Uint16(id[:])), "", -1}
	if own {
		ev.Kind = "own-delete"
	} else {
		m.passed++
	}
	if victim != nil {
		ev.Addr = victim.RemoteAddr
		if s, ok := m.serials[victim]; ok {
			ev.Serial = s
		}
	}
	m.events = append(m.events, ev)
	m.mu.Unlock()
}

func (m *kickMgr) open() {
	m.mu.Lock()
	if !m.opened {
		m.opened = true
		close(m.gate)
	}
	m.mu.Unlock()
}

func (m *kickMgr) counts() (held, passed int) {
	m.mu.Lock()
	defer m.mu.Unlock()
	return m.held, m.passed
}

func (m *kickMgr) history() []kickEvent {
	m.mu.Lock()
	defer m.mu.Unlock()
	return append([]kickEvent{}, m.events...)
}

type kickClient struct {
	Name   string
	Addr   string
	WC     *WireClient
	ID     int
	Sent   map[uint32]int // request id -> type, every request ever sent on this connection
	After  []uint32       // requests sent after the delayed Disconnect ran
	Fence  string         // the chat line sent last
	Base   int            // stream offset from which a "user left" notice can no longer be the target's own departure
	End    int            // stream length when the judged part of the history ended (before the connections are torn down)
	Alone  bool           // the probe request sent before the timer fired was answered
	Listed bool           // still in ClientMgr.List() at the end
}

type kickPlan struct {
	Option    int  // -1 = plain disconnect, 1 = temporary ban, 2 = permanent ban
	Wrap      bool // advance the id counter until the target's id is the allocator's next candidate
	Newcomers int
	Order     int  // login order of administrator / bystander / target
	SelfClose bool // the target's client closes its own connection during the grace period (else: waits to be closed)
}

func (p kickPlan) String() string {
	return fmt.Sprintf("option=%d wrap=%v newcomers=%d order=%d selfclose=%v", p.Option, p.Wrap, p.Newcomers, p.Order, p.SelfClose)
}

type kickRun struct {
	Plan       kickPlan
	TS         *TS
	Mgr        *kickMgr
	Admin      *kickClient
	Bystander  *kickClient
	Target     *kickClient
	New        []*kickClient
	Wrapped    bool   // the counter could be brought to the target's id
	TimerRan   bool   // a delayed Delete went through the gate and returned
	Fenced     bool   // the bystander saw every newcomer's last chat line (all their requests were handled)
	ToldLeft   bool   // administrator and bystander got a "user left" notice for the target's id
	Closed     bool   // the target's connection was closed
	UserList   []int  // ids in the bystander's user list fetched after the delayed Disconnect ran (nil = no reply)
	Skip       string // non-empty: a fixture step did not complete; nothing is judged
	Events     []kickEvent // the client manager's events up to the judgement (before the connections are torn down)
	ModelOps   string      // the same history as connection-level events for the model (add | spin:<id> | leave:<n> | timer:<n>)
	Raced      bool        // the timer fired before the target's own Disconnect had run: nothing could be staged
	nextReq    uint32
	reqMu      sync.Mutex
}

func kwLogin(ts *TS, name, addr, login, password string) (*kickClient, error) {
	wc := ts.Connect(addr, nil)
	wc.Conn.Feed(clientHandshake)
	wc.Conn.Feed(encTran(loginTran(1, login, password, fld(hotline.FieldUserName, []byte(name)), fld(hotline.FieldUserIconID, []byte{0, 7}))))
	k := &kickClient{Name: name, Addr: addr, WC: wc, Sent: map[uint32]int{1: 107}, ID: -1}
	r, ok := wc.ReplyTo(1, kwWait)
	if !ok {
		return k, fmt.Errorf("no login reply")
	}
	if r.ErrorCode != [4]byte{} {
		return k, fmt.Errorf("login refused")
	}
	for _, cc := range ts.Srv.ClientMgr.List() {
		if cc.Connection == wc.Conn {
			k.ID = int(binary.BigEndian.Uint16(cc.ID[:]))
		}
	}
	if k.ID < 0 {
		return k, fmt.Errorf("not registered after the login reply")
	}
	return k, nil
}

func (kr *kickRun) send(k *kickClient, ty hotline.TranType, fields ...hotline.Field) uint32 {
	kr.reqMu.Lock()
	kr.nextReq++
	id := kr.nextReq
	kr.reqMu.Unlock()
	t := mkTran(ty, id, fields...)
	k.Sent[id] = int(binary.BigEndian.Uint16(ty[:]))
	k.WC.Conn.Feed(encTran(t))
	return id
}

func kwHasReply(k *kickClient, id uint32) bool {
	_, trans, _, _ := k.WC.Received()
	for i := range trans {
		if trans[i].IsReply == 1 && binary.BigEndian.Uint32(trans[i].ID[:]) == id {
			return true
		}
	}
	return false
}

// kwSawLeft: did k receive, at or after stream offset `from`, a "user left" notice (302) for id?
func kwSawLeft(k *kickClient, from int, id int) bool {
	w := k.WC.Conn.Written()
	if k.End > 0 && k.End <= len(w) {
		w = w[:k.End]
	}
	if from > len(w) {
		return false
	}
	if from < 8 {
		from = 8
	}
	trans, _, _ := splitTransactions(w[from:])
	for i := range trans {
		if trans[i].IsReply == 0 && binary.BigEndian.Uint16(trans[i].Type[:]) == 302 {
			if d := trans[i].GetField(hotline.FieldUserID).Data; len(d) == 2 && int(binary.BigEndian.Uint16(d)) == id {
				return true
			}
		}
	}
	return false
}

// kwWholeOffset: the length of the longest prefix of k's stream that consists of whole transactions.
func kwWholeOffset(k *kickClient) int {
	w := k.WC.Conn.Written()
	if len(w) < 8 {
		return len(w)
	}
	_, rest, _ := splitTransactions(w[8:])
	return len(w) - len(rest)
}

func kwSawChat(k *kickClient, line string) bool {
	_, trans, _, _ := k.WC.Received()
	for i := range trans {
		if trans[i].IsReply == 0 && binary.BigEndian.Uint16(trans[i].Type[:]) == 106 && bytes.Contains(trans[i].GetField(hotline.FieldData).Data, []byte(line)) {
			return true
		}
	}
	return false
}

// kwAdvance makes connections come and go on the real client manager until the allocator's next candidate
// (skipping 0 and ids held by connected clients other than `want`) is `want`.
func kwAdvance(inner hotline.ClientManager, want int) bool {
	live := map[int]bool{}
	for _, cc := range inner.List() {
		live[int(binary.BigEndian.Uint16(cc.ID[:]))] = true
	}
	for i := 0; i < 66000; i++ {
		// a short-lived connection; it has a (discarding) Connection because a login notification that is being
		// fanned out at this moment may be addressed to it
		d := &hotline.ClientConn{Connection: kwDiscardConn{}}
		inner.Add(d)
		inner.Delete(d.ID)
		next := int(binary.BigEndian.Uint16(d.ID[:]))
		for {
			next = (next + 1) % 65536
			if next != 0 && (!live[next] || next == want) {
				break
			}
		}
		if next == want {
			return true
		}
	}
	return false
}

type kwDiscardConn struct{}

func (kwDiscardConn) Read(p []byte) (int, error)  { return 0, io.EOF }
func (kwDiscardConn) Write(p []byte) (int, error) { return len(p), nil }
func (kwDiscardConn) Close() error                { return nil }

var kwKinds = []hotline.TranType{hotline.TranKeepAlive, hotline.TranGetUserNameList, hotline.TranGetMsgs, hotline.TranGetFileNameList}

// runKickWindow plays the history.  `during` (optional) runs after the delayed Disconnect and the requests, before
// the connections are closed (C17 knocks on the door there).
func runKickWindow(c *Case, plan kickPlan, during func(kr *kickRun)) *kickRun {
	r := c.R
	kr := &kickRun{Plan: plan, nextReq: 1000}
	ts, err := newTS(TSOpt{Board: strings.Repeat("board line\r", 1+r.Intn(40)), Agreement: "be nice"})
	if err != nil {
		kr.Skip = "fixture"
		return kr
	}
	kr.TS = ts
	inner := ts.Srv.ClientMgr
	mgr := newKickMgr(inner)
	kr.Mgr = mgr
	ts.Srv.ClientMgr = mgr
	var all []*kickClient
	defer func() {
		mgr.open()
		for _, k := range all {
			k.WC.Conn.EOF()
		}
		for _, k := range all {
			k.WC.WaitDone(kwWait)
		}
		ts.Close()
	}()
	sub := 1 + r.Intn(200)
	mk := func(name string, host int, login, pw string) *kickClient {
		k, err := kwLogin(ts, name, fmt.Sprintf("10.%d.%d.%d:%d", 30+r.Intn(3), sub, host, 2000+r.Intn(60000)), login, pw)
		all = append(all, k)
		if err != nil {
			kr.Skip = "login of " + name + ": " + err.Error()
			return nil
		}
		return k
	}
	// fixture logins, in one of the six orders (the target's id is the lowest, the middle or the highest)
	order := [][3]int{{0, 1, 2}, {0, 2, 1}, {1, 0, 2}, {1, 2, 0}, {2, 0, 1}, {2, 1, 0}}[plan.Order%6]
	for _, who := range order {
		switch who {
		case 0:
			kr.Admin = mk("admin", 1, "admin", "secret")
		case 1:
			kr.Bystander = mk("bystander", 2, "guest", "")
		case 2:
			kr.Target = mk("target", 3, "guest", "")
		}
		if kr.Skip != "" {
			return kr
		}
	}
	if plan.Wrap {
		kr.Wrapped = kwAdvance(inner, kr.Target.ID)
	}
	// the administrator's request
	fields := []hotline.Field{fld(hotline.FieldUserID, be16(kr.Target.ID))}
	if plan.Option >= 0 {
		fields = append(fields, fld(hotline.FieldOptions, []byte{0, byte(plan.Option)}))
	}
	abase, bbase := kwWholeOffset(kr.Admin), kwWholeOffset(kr.Bystander)
	var ops []string
	for range order {
		ops = append(ops, "add")
	}
	if plan.Wrap && kr.Wrapped {
		ops = append(ops, fmt.Sprintf("spin:%d", kr.Target.ID))
	}
	targetSerial := 0
	for i, who := range order {
		if who == 2 {
			targetSerial = i
		}
	}
	req := kr.send(kr.Admin, hotline.TranDisconnectUser, fields...)
	if !waitFor(kwWait, func() bool { return kwHasReply(kr.Admin, req) }) {
		kr.Skip = "the disconnect request was not answered"
		return kr
	}
	tReply := time.Now()
	// the target's client hangs up by itself during the grace period (or waits: then the gate is opened first)
	if plan.SelfClose {
		kr.Target.WC.Conn.EOF()
		done := func() bool {
			select {
			case err := <-kr.Target.WC.Done:
				kr.Target.WC.Done <- err
				return true
			default:
				return false
			}
		}
		var heldSince time.Time
		waitFor(kwWait, func() bool {
			if done() {
				return true
			}
			// the timer won the race against the client's own hang-up (slow machine) and sits at the gate: give up staging
			if h, _ := mgr.counts(); h >= 1 {
				if heldSince.IsZero() {
					heldSince = time.Now()
				}
				return time.Since(heldSince) > 3*time.Second
			}
			return false
		})
		if !done() {
			kr.Raced = true
			mgr.open()
			if _, ok := kr.Target.WC.WaitDone(kwWait); !ok {
				kr.Skip = "the target's connection handler did not return after its client closed the connection"
				return kr
			}
		}
		ops = append(ops, fmt.Sprintf("leave:%d", targetSerial))
	} else {
		mgr.open()
		ops = append(ops, fmt.Sprintf("timer:%d", targetSerial), fmt.Sprintf("leave:%d", targetSerial))
	}
	kr.ToldLeft = waitFor(kwWait, func() bool {
		return kwSawLeft(kr.Admin, abase, kr.Target.ID) && kwSawLeft(kr.Bystander, bbase, kr.Target.ID)
	})
	kr.Closed = waitFor(kwWait, func() bool { return kr.Target.WC.Conn.IsClosed() })
	if !kr.ToldLeft || !kr.Closed {
		return kr // judged by C17 (others told / connection closed); nothing further can be staged
	}
	if !plan.SelfClose {
		// the old path: wait for the delayed Disconnect to be over before anybody new arrives
		waitFor(kwWait, func() bool { _, p := mgr.counts(); return p >= 1 })
		kr.Target.WC.WaitDone(kwWait)
	}
	// from here on a "user left" notice naming one of the ids below concerns a NEW holder of that id
	kr.Admin.Base, kr.Bystander.Base = kwWholeOffset(kr.Admin), kwWholeOffset(kr.Bystander)
	// newcomers from other addresses log in and are served
	for i := 0; i < plan.Newcomers; i++ {
		k := mk(fmt.Sprintf("newcomer%d", i), 10+i, "guest", "")
		if k == nil {
			return kr
		}
		kr.New = append(kr.New, k)
		ops = append(ops, "add")
		id := kr.send(k, hotline.TranKeepAlive)
		k.Alone = waitFor(kwWait, func() bool { return kwHasReply(k, id) })
		if !k.Alone {
			kr.Skip = "a newcomer's first request was not answered before the timer fired"
			return kr
		}
	}
	// the timer fires: the held Delete goes through — or, when the second Disconnect does nothing at all (nothing to
	// hold, nothing to observe), the timer's second has long passed 2.5 s after the request was answered
	mgr.open()
	if plan.SelfClose && !kr.Raced {
		ops = append(ops, fmt.Sprintf("timer:%d", targetSerial))
	}
	waitFor(30*time.Second, func() bool {
		h, p := mgr.counts()
		return p >= 1 || (h == 0 && time.Since(tReply) > 2500*time.Millisecond)
	})
	_, passed := mgr.counts()
	kr.TimerRan = passed >= 1
	kr.ModelOps = strings.Join(ops, ",")
	kr.Events = mgr.history()
	// everybody sends requests; each newcomer ends with a public chat line (the fence: once the bystander has
	// seen it, all requests of that newcomer have been handled and their replies handed to the outbox)
	kr.Fenced = true
	var ul uint32
	round := func(n int) {
		for _, k := range kr.New {
			for j := 0; j < n; j++ {
				k.After = append(k.After, kr.send(k, kwKinds[r.Intn(len(kwKinds))]))
			}
			k.Fence = fmt.Sprintf("fence-%s-%d", k.Name, r.Intn(1<<30))
			kr.send(k, hotline.TranChatSend, fld(hotline.FieldData, []byte(k.Fence)))
		}
		for _, k := range []*kickClient{kr.Admin, kr.Bystander} {
			k.After = append(k.After, kr.send(k, kwKinds[r.Intn(len(kwKinds))]))
		}
		ul = kr.send(kr.Bystander, hotline.TranGetUserNameList)
		kr.Bystander.After = append(kr.Bystander.After, ul)
		if !waitFor(kwWait, func() bool {
			for _, k := range kr.New {
				if !kwSawChat(kr.Bystander, k.Fence) {
					return false
				}
			}
			return true
		}) {
			kr.Fenced = false
		}
		// the replies are written by goroutines of their own: give them a generous, event-driven grace
		waitFor(20*time.Second, func() bool {
			for _, k := range append(append([]*kickClient{}, kr.New...), kr.Admin, kr.Bystander) {
				for _, id := range k.After {
					if !kwHasReply(k, id) {
						return false
					}
				}
			}
			return true
		})
	}
	round(2 + r.Intn(3))
	if during != nil {
		during(kr)
	}
	// once more, later (should the timer have been slower than everything above)
	if kr.Fenced {
		round(1)
	}
	for _, k := range all {
		k.WC.Quiesce(20*time.Millisecond, 2*time.Second)
		k.End = kwWholeOffset(k)
	}
	// the bystander's user list (the last one fetched)
	if _, trans, _, _ := kr.Bystander.WC.Received(); true {
		for i := range trans {
			if trans[i].IsReply == 1 && binary.BigEndian.Uint32(trans[i].ID[:]) == ul {
				kr.UserList = []int{}
				for _, f := range trans[i].Fields {
					if f.Type == hotline.FieldUsernameWithInfo && len(f.Data) >= 2 {
						kr.UserList = append(kr.UserList, int(binary.BigEndian.Uint16(f.Data[:2])))
					}
				}
			}
		}
	}
	for _, cc := range ts.Srv.ClientMgr.List() {
		for _, k := range all {
			if cc.Connection == k.WC.Conn {
				k.Listed = true
			}
		}
	}
	return kr
}

// kwHistory renders the registry events for the replay file and for the oracle: adds by serial, deletes by id.
func kwHistory(evs []kickEvent) string {
	var sb strings.Builder
	for i, e := range evs {
		if i > 0 {
			sb.WriteByte(' ')
		}
		switch e.Kind {
		case "add":
			fmt.Fprintf(&sb, "add:%d=%d", e.Serial, e.ID)
		default:
			fmt.Fprintf(&sb, "%s:%d->%d", e.Kind, e.ID, e.Serial)
		}
	}
	return sb.String()
}

// kwModelCorr: the history as connection-level events (login / leave / timerFires, counter spins) through the Lean
// model Kick.step (Disconnect once per connection object); its account of the client manager's events — ids handed
// out, whom each Disconnect removed, nothing for a second Disconnect — against what the wrapped manager recorded.
func kwModelCorr(c *Case, kr *kickRun) {
	if kr.Raced || kr.ModelOps == "" {
		return // the forced order could not be staged (the timer won the race): the recorded order is not the scripted one
	}
	c.Note("model_ops", kr.ModelOps)
	c.Corr("registry-history", kwHistory(kr.Events), c.AskS("kickhist", kr.ModelOps), false)
}

func randKickPlan(r *RNG) kickPlan {
	return kickPlan{
		Option:    r.Pick(-1, 1, 2, -1, 1),
		Wrap:      r.Chance(35),
		Newcomers: 1 + r.Intn(3),
		Order:     r.Intn(6),
		SelfClose: !r.Chance(15),
	}
}

// kwOnly: development aid — VERIF_FAMILIES=a,b restricts a run to the named families (unset in bin/check).
func kwOnly(x *Ctx) {
	want := os.Getenv("VERIF_FAMILIES")
	if want == "" {
		return
	}
	var keep []*Family
	for _, f := range x.families {
		for _, w := range strings.Split(want, ",") {
			if f.Name == w {
				keep = append(keep, f)
			}
		}
	}
	x.families = keep
}
