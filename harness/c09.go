//go:build c09

package main

// C09 — uploads are exact, published atomically, resumable after any cut.
//
// Upload histories run through the real HandleUploadFile + handleFileTransfer: each attempt is a
// connection that dies after `cut` bytes (preamble, flattened-file header, data fork, resource fork);
// after every attempt the upload folder is listed and read back and compared (a) directly with the
// property's predicate and (b) with the Lean model (`uploadConn` / `handleUploadFile` / `uploadRun`);
// then the client resumes from the offset the server reports, until completion, followed by a
// download through the real download path and a byte comparison.

import (
	"encoding/binary"
	"fmt"
	"os"
	"path/filepath"
	"sort"
	"strings"

	"github.com/jhalter/mobius/hotline"
)

// upTarget is one upload target name with the client's file and the expected state of the two names.
type upTarget struct {
	c         *Case
	ts        *TS
	set       *transferSet
	cc        *hotline.ClientConn
	preserve  bool
	pathField []byte
	reqName   []byte
	dir, name string
	fc        int
	info      infoSpec
	data      []byte
	rsrc      []byte
	id        *uint32
	// expected state (lengths; -1 = absent), maintained from the Lean model's answers
	finalLen, incLen int
	opened           bool // the transfer handler got past the existence check at least once (side files created)
	infoWritten      bool
	rsrcSeen         int
	attempts         []string
	cuts             []int
	states           []string
	// wave d: the whole history as events ("c<k>" attempt cut after k bytes, "a0"/"a1" request without a transfer,
	// "t…"/"i…" time passing, appended by the pre hook) and what the implementation showed at each of them
	// ("<reply> > <final> <partial>" read back from disk / "<reply>"); compared with the model's `uphist`
	pre    func(step string)
	events []string
	obs    []string
}

func (u *upTarget) describe() {
	c := u.c
	c.Note("target", filepath.Join(u.dir, u.name))
	c.Note("data_len", len(u.data))
	c.Note("fork_count", u.fc)
	c.Note("rsrc_len", len(u.rsrc))
	c.Note("info_len", len(u.info.encode()))
	c.Note("preserve_forks", u.preserve)
	c.Note("attempts", strings.Join(u.attempts, " ; "))
}

func (u *upTarget) viol(key, what string) { u.describe(); u.c.Violation(key, what) }

func lenArg(n int) string {
	if n < 0 {
		return "-"
	}
	return fmt.Sprint(n)
}

// readOpt returns the content of a file, or nil,false when it does not exist.
func readOpt(p string) ([]byte, bool) {
	b, err := os.ReadFile(p)
	if err != nil {
		return nil, false
	}
	if b == nil {
		b = []byte{}
	}
	return b, true
}

// observe reads the two names and checks them against the expected lengths and the client's data.
func (u *upTarget) observe(step string) {
	c := u.c
	fin, hasFin := readOpt(filepath.Join(u.dir, u.name))
	inc, hasInc := readOpt(filepath.Join(u.dir, u.name+".incomplete"))
	fl, il := -1, -1
	if hasFin {
		fl = len(fin)
	}
	if hasInc {
		il = len(inc)
	}
	u.describe()
	c.Note("step", step)
	c.Corr("upload-state", fmt.Sprintf("%s %s", lenArg(fl), lenArg(il)), fmt.Sprintf("%s %s", lenArg(u.finalLen), lenArg(u.incLen)), false)
	// the property's predicate on the observed state
	if hasFin && !bytesEq(fin, u.data) {
		c.Note("diff", firstDiff(fin, u.data))
		u.viol("final-name-not-exact", step+": the final name exists but does not hold exactly the bytes the client sent")
	}
	if hasInc {
		if il > len(u.data) || !bytesEq(inc, u.data[:il]) {
			c.Note("diff", firstDiff(inc, u.data))
			u.viol("partial-not-a-prefix", step+": the partial file is not a prefix of the client's data")
		}
	}
	if hasFin && hasInc {
		u.viol("final-and-partial", step+": final name and partial file exist together")
	}
	// listing: nothing else appears for this target
	want := []string{}
	if u.finalLen >= 0 {
		want = append(want, u.name)
	}
	if u.incLen >= 0 {
		want = append(want, u.name+".incomplete")
	}
	if u.preserve && u.opened {
		want = append(want, ".info_"+u.name, ".rsrc_"+u.name)
	}
	sort.Strings(want)
	var got []string
	if es, err := os.ReadDir(u.dir); err == nil {
		for _, e := range es {
			n := e.Name()
			if n == u.name || n == u.name+".incomplete" || n == ".info_"+u.name || n == ".rsrc_"+u.name {
				got = append(got, n)
			}
		}
	}
	sort.Strings(got)
	c.Corr("upload-listing", strings.Join(got, "|"), strings.Join(want, "|"), false)
	if u.preserve && u.opened {
		ib, _ := readOpt(filepath.Join(u.dir, ".info_"+u.name))
		wantInfo := []byte{}
		if u.infoWritten {
			wantInfo = u.info.encode()
		}
		rb, _ := readOpt(filepath.Join(u.dir, ".rsrc_"+u.name))
		okR := len(rb) == u.rsrcSeen && len(rb) <= len(u.rsrc) && bytesEq(rb, u.rsrc[:len(rb)])
		c.Corr("upload-side-files", fmt.Sprintf("info=%s rsrc-ok=%v", hx(ib), okR), fmt.Sprintf("info=%s rsrc-ok=true", hx(wantInfo)), false)
	}
}

// attempt runs one upload attempt cut after `cut` connection bytes (cut < 0: not cut).  It asks the
// server how to proceed exactly as a client would: resume when a partial file is believed to exist.
func (u *upTarget) attempt(cut int, forceResumeAsk bool) bool {
	c := u.c
	if u.pre != nil {
		u.pre("attempt")
	}
	*u.id++
	resume := u.incLen >= 0 || forceResumeAsk
	fields := []hotline.Field{fld(hotline.FieldFileName, u.reqName)}
	if u.pathField != nil {
		fields = append(fields, fld(hotline.FieldFilePath, u.pathField))
	}
	if resume {
		fields = append(fields, fld(hotline.FieldFileTransferOptions, []byte{0, 1}))
	} else {
		fields = append(fields, fld(hotline.FieldTransferSize, be32(len(u.data))))
	}
	res, _, pan := u.ts.Call(u.cc, mkTran(hotline.TranUploadFile, *u.id, fields...))
	if pan != nil {
		c.Note("panic", fmt.Sprint(pan))
		u.viol("upload-request-panics", "HandleUploadFile panicked on a well-formed request")
		return false
	}
	// the control reply against the model
	rs := "0"
	if resume {
		rs = "1"
	}
	model := c.AskS("uphandle", lenArg(u.finalLen), lenArg(u.incLen), rs)
	impl := "noreply"
	var ref [4]byte
	offset := 0
	if len(res) == 1 {
		r0 := res[0]
		refB, hasRef := getField(&r0, hotline.FieldRefNum)
		rd, hasRD := getField(&r0, hotline.FieldFileResumeData)
		switch {
		case r0.ErrorCode != [4]byte{}:
			impl = "refused"
		case hasRef && len(refB) == 4 && !hasRD:
			impl = "ok"
			copy(ref[:], refB)
		case hasRef && len(refB) == 4 && hasRD:
			copy(ref[:], refB)
			o, ok := parseResumeOffset(rd)
			if !ok {
				c.Note("resume_data", hx(rd))
				u.viol("resume-data-unparseable", "the resume reply's field 203 is not resume data with a DATA fork entry")
				return false
			}
			offset = o
			impl = fmt.Sprintf("ok %d %s", o, hx(rd))
		default:
			impl = "malformed " + replyCanon(&r0)
		}
	} else if len(res) > 1 {
		impl = fmt.Sprintf("%d transactions", len(res))
	}
	u.describe()
	c.Note("request", map[bool]string{true: "resume", false: "fresh"}[resume])
	c.Corr("upload-reply", impl, model, false)
	if strings.HasPrefix(impl, "ok ") {
		// the property: the reported offset is the size of the partial file
		inc, has := readOpt(filepath.Join(u.dir, u.name+".incomplete"))
		if !has || offset != len(inc) {
			u.viol("reported-offset", fmt.Sprintf("resume offset %d reported, the partial file holds %d bytes (exists=%v)", offset, len(inc), has))
		}
	}
	if impl == "noreply" && resume {
		// no partial file to resume: the client starts over with a fresh request
		u.attempts = append(u.attempts, "resume-ask:noreply")
		u.events = append(u.events, "a1")
		u.obs = append(u.obs, "noreply")
		if u.incLen >= 0 {
			return false
		}
		return u.attempt(cut, false)
	}
	if !strings.HasPrefix(impl, "ok") {
		return false
	}
	if offset > len(u.data) {
		u.viol("reported-offset", fmt.Sprintf("resume offset %d exceeds the file (%d)", offset, len(u.data)))
		return false
	}
	stream := uploadStreamBytes(u.fc, u.info, u.data[offset:], u.rsrc)
	conn := append(preambleBytes(ref, len(stream)), stream...)
	full := len(conn)
	if cut >= 0 && cut < len(conn) {
		conn = conn[:cut]
	}
	complete := len(conn) == full
	hdrLen := 56 + len(u.info.encode())
	dlen := len(u.data) - offset
	u.attempts = append(u.attempts, fmt.Sprintf("%s@%d cut=%d/%d", map[bool]string{true: "resume", false: "fresh"}[resume], offset, len(conn), full))
	u.cuts = append(u.cuts, len(conn))
	u.events = append(u.events, fmt.Sprintf("c%d", len(conn)))
	dc := newDlgConn(conn, randSegs(c.R), nil)
	x := u.set.start(ref, dc)
	if !x.waitBody() {
		u.viol("transfer-handler-hangs", "the upload transfer did not finish")
		return false
	}
	// model: the new state of the two names
	regions := [][2]int{{16 + hdrLen, 16 + hdrLen + dlen}}
	if u.fc == 3 {
		regions = append(regions, [2]int{16 + hdrLen + dlen + 16, full})
	}
	st := c.AskS("upconn", lenArg(u.finalLen), lenArg(u.incLen), hexzRegions(conn, regions))
	var a, b string
	fmt.Sscanf(st, "%s %s", &a, &b)
	prevInc := u.incLen
	u.finalLen, u.incLen = parseLen(a), parseLen(b)
	u.states = append(u.states, st)
	if len(conn) >= 16 {
		u.opened = true
		if len(conn) >= 16+hdrLen {
			u.infoWritten = true
		} else {
			u.infoWritten = false // O_TRUNC on every open
		}
		if u.fc == 3 {
			got := len(conn) - (16 + hdrLen + dlen + 16)
			if got < 0 {
				got = 0
			}
			if got > u.rsrcSeen {
				u.rsrcSeen = got
			}
		}
	}
	// the property, directly: what must be on disk now
	n := len(conn) - 16 - hdrLen
	if n < 0 {
		n = 0
	}
	if n > dlen {
		n = dlen
	}
	fin, hasFin := readOpt(filepath.Join(u.dir, u.name))
	inc, hasInc := readOpt(filepath.Join(u.dir, u.name+".incomplete"))
	step := fmt.Sprintf("after attempt %d", len(u.cuts))
	{
		fl, il := -1, -1
		if hasFin {
			fl = len(fin)
		}
		if hasInc {
			il = len(inc)
		}
		short := impl
		if strings.HasPrefix(impl, "ok ") {
			short = fmt.Sprintf("ok %d", offset)
		}
		u.obs = append(u.obs, fmt.Sprintf("%s > %s %s", short, lenArg(fl), lenArg(il)))
	}
	if complete {
		if !hasFin || !bytesEq(fin, u.data) || hasInc {
			u.viol("complete-upload-not-published", step+": the whole stream was delivered but the final name does not hold exactly the client's bytes (or a partial file remains)")
		}
	} else {
		dataComplete := n == dlen && len(conn) >= 16+hdrLen
		if hasFin && !dataComplete {
			u.viol("published-before-complete", step+": the connection died before the data fork was complete, yet the final name exists")
		}
		// (a final name after a complete data fork but a cut resource fork is not against the statement; the model comparison reports it)
		if len(conn) >= 16 {
			if !hasFin && (!hasInc || !bytesEq(inc, u.data[:offset+n])) {
				c.Note("partial_len", len(inc))
				c.Note("expected_partial_len", offset+n)
				u.viol("partial-not-exact-prefix", step+": the partial file does not hold exactly the data bytes received so far")
			}
		} else if (prevInc >= 0) != hasInc {
			u.viol("cut-in-preamble-changed-state", step+": a connection that died inside the preamble changed the partial file's existence")
		}
	}
	if n > 0 {
		c.Nontrivial(fmt.Sprintf("%d|%d|%d|%d|%d|%v", len(u.data), u.fc, len(u.rsrc), offset, len(conn), u.preserve))
	}
	c.Dist("cut/" + cutRegion(len(conn), full, hdrLen, dlen, u.fc))
	u.observe(step)
	return true
}

func parseLen(s string) int {
	if s == "-" || s == "" {
		return -1
	}
	n := 0
	fmt.Sscanf(s, "%d", &n)
	return n
}

func cutRegion(cut, full, hdrLen, dlen, fc int) string {
	switch {
	case cut >= full:
		return "none"
	case cut < 16:
		return "preamble"
	case cut < 16+hdrLen:
		return "header"
	case cut < 16+hdrLen+dlen:
		return "data"
	default:
		return "resource-fork"
	}
}

// finish resumes until completion, then checks the whole-history model, the refusal of a second
// upload, and what a download returns.
func (u *upTarget) finish(download bool, post *[]func()) {
	c := u.c
	for i := 0; i < 3 && u.finalLen < 0; i++ {
		if !u.attempt(-1, false) {
			break
		}
	}
	if u.finalLen != len(u.data) {
		u.viol("upload-never-completes", "an uncut resume attempt did not complete the upload")
		return
	}
	// whole history through the model of the client + server (`uploadRun`, the subject of the invariant theorem)
	cs := make([]string, len(u.cuts))
	for i, k := range u.cuts {
		cs[i] = fmt.Sprint(k)
	}
	u.describe()
	c.Corr("upload-history", strings.Join(u.states, " ; "),
		c.AskS("uprun", "7", fmt.Sprint(u.fc), u.info.oracleArgs(), fmt.Sprint(len(u.data)), fmt.Sprint(len(u.rsrc)), strings.Join(cs, " ")), false)
	// an existing file is never replaced: the request is refused …
	if u.pre != nil {
		u.pre("refusal")
	}
	*u.id++
	res, _, _ := u.ts.Call(u.cc, mkTran(hotline.TranUploadFile, *u.id, fld(hotline.FieldFileName, u.reqName), fld(hotline.FieldFilePath, u.pathField), fld(hotline.FieldTransferSize, be32(3))))
	u.events = append(u.events, "a0")
	u.obs = append(u.obs, map[bool]string{true: "refused", false: "not-refused"}[len(res) == 1 && res[0].ErrorCode != [4]byte{}])
	if len(res) != 1 || res[0].ErrorCode == [4]byte{} {
		u.viol("existing-file-not-refused", "an upload request naming an existing file was not refused")
	} else if _, has := getField(&res[0], hotline.FieldRefNum); has {
		u.viol("existing-file-not-refused", "an upload request naming an existing file got a reference number")
	}
	c.Corr("upload-reply", "refused", c.AskS("uphandle", lenArg(u.finalLen), lenArg(u.incLen), "0"), false)
	if download {
		st, err := os.Stat(filepath.Join(u.dir, u.name))
		if err != nil {
			return
		}
		f := &diskFile{Dir: u.dir, Name: u.name, ReqName: u.reqName, Data: u.data, ModTime: st.ModTime()}
		if u.preserve {
			i := u.info
			f.Info = &i
			f.HasRsrc = true
			f.Rsrc = []byte{}
			if u.fc == 3 {
				f.Rsrc = u.rsrc
			}
		}
		for _, rq := range []dlRequestSpec{{}, {resume: true, k: c.R.Intn(len(u.data) + 1)}} {
			*u.id++
			checkDownload(c, u.ts, u.set, post, u.cc, *u.id, f, u.pathField, rq)
		}
	}
}

func newUpTarget(c *Case, ts *TS, set *transferSet, cc *hotline.ClientConn, id *uint32, preserve bool, pathItems [][]byte, req []byte, dataLen int) (*upTarget, error) {
	r := c.R
	var pathField []byte
	if len(pathItems) > 0 {
		pathField = encodePathItems(pathItems)
	}
	dir, name, err := diskNameOf(ts, pathField, req)
	if err != nil {
		return nil, err
	}
	if err := os.MkdirAll(dir, 0755); err != nil {
		return nil, err
	}
	u := &upTarget{c: c, ts: ts, set: set, cc: cc, preserve: preserve, pathField: pathField, reqName: req, dir: dir, name: name,
		fc: 2, data: genData(r, dataLen), id: id, finalLen: -1, incLen: -1}
	u.info = randInfoSpec(r, req)
	if len(u.info.Comment) > 40 {
		u.info.Comment = u.info.Comment[:r.Intn(40)]
	}
	if r.Chance(40) {
		u.fc = 3
		u.rsrc = genData(r, r.Pick(0, 1, 7, 40, r.Intn(3000)))
	}
	return u, nil
}

// staleTransfer: a second reference number obtained while the name was still free is used after the
// file was published — the transfer handler must leave the file alone.
func (u *upTarget) staleTransfer(ref [4]byte) {
	c := u.c
	other := genData(c.R, 10+c.R.Intn(200))
	stream := uploadStreamBytes(2, u.info, other, nil)
	conn := append(preambleBytes(ref, len(stream)), stream...)
	dc := newDlgConn(conn, nil, nil)
	x := u.set.start(ref, dc)
	if !x.waitBody() {
		u.viol("transfer-handler-hangs", "the upload transfer did not finish")
		return
	}
	u.attempts = append(u.attempts, "stale-reference-transfer")
	st := c.AskS("upconn", lenArg(u.finalLen), lenArg(u.incLen), hexzRegions(conn, [][2]int{{16 + 56 + len(u.info.encode()), len(conn)}}))
	c.Corr("upload-state-after-stale-transfer", st, fmt.Sprintf("%s %s", lenArg(u.finalLen), lenArg(u.incLen)), false)
	fin, has := readOpt(filepath.Join(u.dir, u.name))
	if !has || !bytesEq(fin, u.data) {
		u.viol("existing-file-replaced", "a transfer connection for a name that meanwhile exists changed the existing file")
	}
	u.observe("after the stale transfer")
}

func (u *upTarget) freshRef() ([4]byte, bool) {
	*u.id++
	var ref [4]byte
	res, _, _ := u.ts.Call(u.cc, mkTran(hotline.TranUploadFile, *u.id, fld(hotline.FieldFileName, u.reqName), fld(hotline.FieldFilePath, u.pathField), fld(hotline.FieldTransferSize, be32(5))))
	if len(res) != 1 {
		return ref, false
	}
	b, ok := getField(&res[0], hotline.FieldRefNum)
	if !ok || len(b) != 4 {
		return ref, false
	}
	copy(ref[:], b)
	return ref, true
}

// c09ExtraFamilies: families registered by the other c09_*.go files.
var c09ExtraFamilies []*Family

func init() {
	props["C09"] = func(x *Ctx) {
		x.rule = "family upload-every-cut: one small file (0..300 data bytes, fork count 2 or 3, comment 0..40 bytes) per case, uploaded once for EVERY cut position k of its connection bytes (preamble, header, data, resource fork), each history = cut at k, resume from the reported offset to completion, second upload refused, every 8th followed by a download. family upload-histories: files of 0..256 KiB (thorough: up to 2 MiB), 1..5 cuts drawn from the boundary set {0,15,16,17, header start/INFO/DATA boundaries ±1, data start ±1, mid-data, data end ±1, fork header ±1, end-1} and uniformly random positions, random read segmentation, with and without PreserveResourceForks, then uncut resume, stale-reference transfer, refusal, two downloads. family upload-aged-histories: 6 targets per case (40..70000 data bytes), 2..6 cuts in a row (75 % strictly inside the remaining data fork so that the partial file grows from resume to resume, the rest from the boundary set), before EVERY request the modification times of <name>.incomplete, <name>, the folder and the side files are moved (each with its own probability) to an age from {0,1,4,5,6,9,11,29,31,59,61,301,3601,86401,40000000 s, 1 h in the future} or nothing passes at all (25 %), 30 % of the attempts are followed by a request whose transfer never starts; every resume offset is judged against the partial file's size on disk at that moment and the whole history is compared event by event with the model's upHistory. family upload-declared-sizes: 6 targets per case, 1..4 attempts each whose header DECLARES a data fork of a size drawn from {0x7FFFFFFF, 0x80000000, 0x80000001, 0xFFFFFFFF, 0xFFFFFFFE, 0x100000, 0x100001, 0xFFFF, 0x10000, 0x8000, 0xC0000000, …} or uniformly from [2^20, 2^32) while only 0..4096 data bytes are sent before the connection dies (12 % cut inside preamble/header instead), each continuing from the reported offset; 60 % end with an honest attempt declaring the short remainder (fork count 3: resource fork declared from the same set and cut, then small and whole); judged after every attempt: no final name, partial = exactly the bytes received, resume offset = bytes held, completion = exactly the bytes sent. After every attempt both names are read back. non-trivial = an attempt that delivered at least one data-fork byte; distinct = distinct (data length, fork count, resource length, resume offset, cut position, preserve flag)"
		x.assume = []string{
			"a client that restarts from zero without asking to resume while a partial file exists is outside the property's quantifier (the server appends); not generated",
			"file contents are pseudo-random so that a shifted, repeated or dropped block changes the comparison",
			"information forks sent by the client are well-formed (name + 74 < 65536)",
			"uploaded file names are at most 244 bytes (240 generated) in every family except name-too-long-witness (known finding name-too-long-for-incomplete-suffix: <name>.incomplete must fit the file system's 255-byte name limit)",
		}
		x.Add(&Family{Name: "upload-every-cut", Quick: 16, Thor: 96, Run: runC09EveryCut})
		// Witness of the `.incomplete` name collision: recorded in known_findings.json (C09, key incomplete-suffix-collision).
		// It prints a KNOWN-FINDING line on every run; if the collision is ever repaired this family must pass.
		x.Add(&Family{Name: "incomplete-suffix-witness", Quick: 2, Thor: 4, Run: runC09SuffixWitness})
		x.Add(&Family{Name: "name-too-long-witness", Quick: 3, Thor: 4, Run: runC09NameTooLong})
		x.Add(&Family{Name: "upload-histories", Quick: 48, Thor: 480, Run: runC09Histories})
		// wave d: multi-cut histories with time passing (modification times moved) between the requests — c09_aged.go
		x.Add(&Family{Name: "upload-aged-histories", Quick: 14, Thor: 200, Run: runC09Aged})
		// wave e: declared fork sizes over the whole 32-bit range, short prefixes sent — c09_declared.go
		for _, f := range c09ExtraFamilies {
			x.Add(f)
		}
	}
}

// runC09NameTooLong: KNOWN FINDING name-too-long-for-incomplete-suffix.  A single-file upload of a name of
// 245..255 bytes: the request is granted, the transfer handler fails to open <name>.incomplete (beyond the file
// system's 255-byte name limit), and the file the client sent never appears.  Only the property's own predicate
// is evaluated (the model has no name-length limit), under exactly that key.
func runC09NameTooLong(c *Case) {
	L := []int{245, 250, 255}[c.Idx%3]
	if c.Idx >= 3 {
		L = 245 + c.R.Intn(11)
	}
	ts, set, cc, _, done := c09Setup(c)
	if ts == nil {
		return
	}
	defer done()
	name := fmt.Sprintf("file%d-", L)
	for len(name) < L {
		name += string(rune('a' + c.R.Intn(26)))
	}
	data := genData(c.R, 1+c.R.Intn(400))
	res, _, _ := ts.Call(cc, mkTran(hotline.TranUploadFile, 5, fld(hotline.FieldFileName, []byte(name)), fld(hotline.FieldTransferSize, be32(len(data)))))
	c.Note("file_name_bytes", L)
	if len(res) != 1 || res[0].ErrorCode != [4]byte{} {
		c.Note("reply", "refused or none")
		c.Violation("name-too-long-for-incomplete-suffix", fmt.Sprintf("an upload request for a free name of %d bytes was not granted", L))
		return
	}
	refB, _ := getField(&res[0], hotline.FieldRefNum)
	var ref [4]byte
	copy(ref[:], refB)
	st := uploadStreamBytes(2, defaultInfoSpec([]byte(name), make([]byte, 8), []byte("TEXT"), []byte("ttxt")), data, nil)
	x := set.start(ref, newDlgConn(append(preambleBytes(ref, len(st)), st...), nil, nil))
	if !x.waitBody() {
		c.Violation("transfer-handler-hangs", "the upload transfer did not finish")
		return
	}
	c.Note("listing", listDir(ts.Root))
	got, has := readOpt(filepath.Join(ts.Root, name))
	if !has || !bytesEq(got, data) {
		c.Violation("name-too-long-for-incomplete-suffix", fmt.Sprintf("an uncut single-file upload of a name of %d bytes did not publish the file the client sent", L))
	}
	c.Nontrivial(fmt.Sprintf("toolong|%d", L))
	c.Dist("name-too-long-witness")
}

// runC09SuffixWitness: a complete file named `a.txt.incomplete`, then an upload of `a.txt`.
func runC09SuffixWitness(c *Case) {
	ts, set, cc, _, done := c09Setup(c)
	if ts == nil {
		return
	}
	defer done()
	up := func(id uint32, name string, data []byte) bool {
		res, _, _ := ts.Call(cc, mkTran(hotline.TranUploadFile, id, fld(hotline.FieldFileName, []byte(name)), fld(hotline.FieldTransferSize, be32(len(data)))))
		if len(res) != 1 || res[0].ErrorCode != [4]byte{} {
			return false
		}
		refB, _ := getField(&res[0], hotline.FieldRefNum)
		var ref [4]byte
		copy(ref[:], refB)
		st := uploadStreamBytes(2, defaultInfoSpec([]byte(name), make([]byte, 8), []byte("TEXT"), []byte("ttxt")), data, nil)
		x := set.start(ref, newDlgConn(append(preambleBytes(ref, len(st)), st...), nil, nil))
		return x.waitBody()
	}
	a, b := genData(c.R, 30), genData(c.R, 20)
	up(1, "a.txt.incomplete", a)
	up(2, "a.txt", b)
	first, has1 := readOpt(filepath.Join(ts.Root, "a.txt.incomplete"))
	second, has2 := readOpt(filepath.Join(ts.Root, "a.txt"))
	c.Note("listing", listDir(ts.Root))
	if !has1 || !bytesEq(first, a) {
		c.Violation("incomplete-suffix-collision", "uploading a.txt destroyed the existing complete file a.txt.incomplete")
	}
	if has2 && !bytesEq(second, b) {
		c.Violation("incomplete-suffix-collision", "a.txt does not hold exactly the bytes the client sent (it starts with the bytes of a.txt.incomplete)")
	}
	c.Nontrivial("suffix-witness")
}

func c09Setup(c *Case) (*TS, *transferSet, *hotline.ClientConn, *[]func(), func()) {
	ts, err := newTS(TSOpt{Direct: true, PreserveForks: c.R.Bool()})
	if err != nil {
		c.Note("setup", err.Error())
		return nil, nil, nil, nil, func() {}
	}
	set := &transferSet{ts: ts, x: c.X}
	post := &[]func(){}
	cc, _ := ts.DirectClient("admin", []byte("admin"), "127.0.0.1:1234")
	return ts, set, cc, post, func() {
		if !set.waitAll() {
			c.Violation("transfer-handler-hangs", "a transfer handler did not return")
		}
		for _, f := range *post {
			f()
		}
		ts.Close()
	}
}

func runC09EveryCut(c *Case) {
	r := c.R
	ts, set, cc, post, done := c09Setup(c)
	if ts == nil {
		return
	}
	defer done()
	preserve := ts.Srv.Config.PreserveResourceForks
	id := uint32(10)
	dataLen := r.Pick(0, 1, 2, 5, 17, 64, 150, 300, r.Intn(301))
	// template target (all copies share contents so that the connection bytes differ only by the name)
	tmpl, err := newUpTarget(c, ts, set, cc, &id, preserve, [][]byte{[]byte("Uploads")}, []byte("u00000.dat"), dataLen)
	if err != nil {
		return
	}
	if len(tmpl.rsrc) > 60 {
		tmpl.rsrc = tmpl.rsrc[:r.Intn(60)]
	}
	tmpl.info.Name = []byte("u00000.dat")
	total := 16 + len(uploadStreamBytes(tmpl.fc, tmpl.info, tmpl.data, tmpl.rsrc))
	for k := 0; k <= total; k++ {
		req := []byte(fmt.Sprintf("u%05d.dat", k))
		u := *tmpl
		u.reqName = req
		u.name = string(req)
		u.info.Name = req
		u.finalLen, u.incLen, u.opened, u.infoWritten, u.rsrcSeen = -1, -1, false, false, 0
		u.attempts, u.cuts, u.states = nil, nil, nil
		var stale [4]byte
		haveStale := false
		if k%16 == 3 {
			stale, haveStale = u.freshRef()
		}
		if !u.attempt(k, false) {
			continue
		}
		if k < 16 && r.Chance(50) {
			// ask to resume although nothing was created: the model says the handler stays silent
			u.attempt(r.Intn(total+1), true)
		}
		u.finish(k%8 == 0, post)
		if haveStale && u.finalLen >= 0 {
			u.staleTransfer(stale)
		}
	}
	c.Sample(map[string]any{"family": c.Fam, "data_len": dataLen, "fork_count": tmpl.fc, "cut_positions": total + 1})
}

func boundaryCuts(r *RNG, hdrLen, dlen, fc, rlen int) []int {
	il := hdrLen - 56
	full := 16 + hdrLen + dlen
	if fc == 3 {
		full += 16 + rlen
	}
	pool := []int{0, 1, 15, 16, 17, 16 + 23, 16 + 24, 16 + 25, 16 + 39, 16 + 40, 16 + 41, 16 + 40 + il - 1, 16 + 40 + il, 16 + 40 + il + 1,
		16 + hdrLen - 1, 16 + hdrLen, 16 + hdrLen + 1, 16 + hdrLen + dlen/2, 16 + hdrLen + dlen - 1, 16 + hdrLen + dlen, 16 + hdrLen + dlen + 1,
		16 + hdrLen + dlen + 15, 16 + hdrLen + dlen + 16, 16 + hdrLen + dlen + 17, full - 1, full,
		16 + hdrLen + 4095, 16 + hdrLen + 4096, 16 + hdrLen + 32768, 16 + hdrLen + 32769}
	k := pool[r.Intn(len(pool))]
	if r.Chance(40) {
		k = r.Intn(full + 1)
	}
	if k < 0 {
		k = 0
	}
	return []int{k}
}

func runC09Histories(c *Case) {
	r := c.R
	ts, set, cc, post, done := c09Setup(c)
	if ts == nil {
		return
	}
	defer done()
	preserve := ts.Srv.Config.PreserveResourceForks
	id := uint32(10)
	for h := 0; h < 8; h++ {
		var pathItems [][]byte
		for d := r.Pick(0, 1, 1, 2); d > 0; d-- {
			pathItems = append(pathItems, genReqName(r, 16))
		}
		max := 256 * 1024
		if c.X.Tier == "thorough" && r.Chance(10) {
			max = 2 << 20
		}
		dataLen := r.Pick(0, 1, 2, r.Intn(300), r.Intn(5000), 4096, 32768, 32769, 65536, r.Intn(max+1))
		u, err := newUpTarget(c, ts, set, cc, &id, preserve, pathItems, genReqName(r, 60), dataLen)
		if err != nil {
			c.Dist("skip/name-undecodable")
			continue
		}
		var stale [4]byte
		haveStale := false
		if r.Chance(50) {
			stale, haveStale = u.freshRef()
		}
		nCuts := 1 + r.Intn(5)
		for i := 0; i < nCuts && u.finalLen < 0; i++ {
			off := 0
			if u.incLen > 0 {
				off = u.incLen
			}
			ks := boundaryCuts(r, 56+len(u.info.encode()), len(u.data)-off, u.fc, len(u.rsrc))
			if !u.attempt(ks[0], false) {
				break
			}
		}
		u.finish(true, post)
		if haveStale && u.finalLen >= 0 {
			u.staleTransfer(stale)
		}
		c.Sample(map[string]any{"family": c.Fam, "data_len": dataLen, "attempts": u.attempts})
		_ = binary.BigEndian
	}
}
