//go:build c01

package main

// The wire constants of the library, by name, as the running code has them — compared one by one
// with the protocol tables held by the Lean model (Spec/Tables.lean), so that a changed constant
// yields a concrete failing object (the name and both values), not only a broken `decide`.

import (
	"encoding/binary"
	"fmt"
	"strings"

	"github.com/jhalter/mobius/hotline"
)

var goTranTypes = map[string]hotline.TranType{
	"TranError": hotline.TranError,
	"TranGetMsgs": hotline.TranGetMsgs,
	"TranNewMsg": hotline.TranNewMsg,
	"TranOldPostNews": hotline.TranOldPostNews,
	"TranServerMsg": hotline.TranServerMsg,
	"TranChatSend": hotline.TranChatSend,
	"TranChatMsg": hotline.TranChatMsg,
	"TranLogin": hotline.TranLogin,
	"TranSendInstantMsg": hotline.TranSendInstantMsg,
	"TranShowAgreement": hotline.TranShowAgreement,
	"TranDisconnectUser": hotline.TranDisconnectUser,
	"TranDisconnectMsg": hotline.TranDisconnectMsg,
	"TranInviteNewChat": hotline.TranInviteNewChat,
	"TranInviteToChat": hotline.TranInviteToChat,
	"TranRejectChatInvite": hotline.TranRejectChatInvite,
	"TranJoinChat": hotline.TranJoinChat,
	"TranLeaveChat": hotline.TranLeaveChat,
	"TranNotifyChatChangeUser": hotline.TranNotifyChatChangeUser,
	"TranNotifyChatDeleteUser": hotline.TranNotifyChatDeleteUser,
	"TranNotifyChatSubject": hotline.TranNotifyChatSubject,
	"TranSetChatSubject": hotline.TranSetChatSubject,
	"TranAgreed": hotline.TranAgreed,
	"TranServerBanner": hotline.TranServerBanner,
	"TranGetFileNameList": hotline.TranGetFileNameList,
	"TranDownloadFile": hotline.TranDownloadFile,
	"TranUploadFile": hotline.TranUploadFile,
	"TranNewFolder": hotline.TranNewFolder,
	"TranDeleteFile": hotline.TranDeleteFile,
	"TranGetFileInfo": hotline.TranGetFileInfo,
	"TranSetFileInfo": hotline.TranSetFileInfo,
	"TranMoveFile": hotline.TranMoveFile,
	"TranMakeFileAlias": hotline.TranMakeFileAlias,
	"TranDownloadFldr": hotline.TranDownloadFldr,
	"TranDownloadInfo": hotline.TranDownloadInfo,
	"TranDownloadBanner": hotline.TranDownloadBanner,
	"TranUploadFldr": hotline.TranUploadFldr,
	"TranGetUserNameList": hotline.TranGetUserNameList,
	"TranNotifyChangeUser": hotline.TranNotifyChangeUser,
	"TranNotifyDeleteUser": hotline.TranNotifyDeleteUser,
	"TranGetClientInfoText": hotline.TranGetClientInfoText,
	"TranSetClientUserInfo": hotline.TranSetClientUserInfo,
	"TranListUsers": hotline.TranListUsers,
	"TranUpdateUser": hotline.TranUpdateUser,
	"TranNewUser": hotline.TranNewUser,
	"TranDeleteUser": hotline.TranDeleteUser,
	"TranGetUser": hotline.TranGetUser,
	"TranSetUser": hotline.TranSetUser,
	"TranUserAccess": hotline.TranUserAccess,
	"TranUserBroadcast": hotline.TranUserBroadcast,
	"TranGetNewsCatNameList": hotline.TranGetNewsCatNameList,
	"TranGetNewsArtNameList": hotline.TranGetNewsArtNameList,
	"TranDelNewsItem": hotline.TranDelNewsItem,
	"TranNewNewsFldr": hotline.TranNewNewsFldr,
	"TranNewNewsCat": hotline.TranNewNewsCat,
	"TranGetNewsArtData": hotline.TranGetNewsArtData,
	"TranPostNewsArt": hotline.TranPostNewsArt,
	"TranDelNewsArt": hotline.TranDelNewsArt,
	"TranKeepAlive": hotline.TranKeepAlive,
}

var goFieldIDs = map[string][2]byte{
	"FieldError": hotline.FieldError,
	"FieldData": hotline.FieldData,
	"FieldUserName": hotline.FieldUserName,
	"FieldUserID": hotline.FieldUserID,
	"FieldUserIconID": hotline.FieldUserIconID,
	"FieldUserLogin": hotline.FieldUserLogin,
	"FieldUserPassword": hotline.FieldUserPassword,
	"FieldRefNum": hotline.FieldRefNum,
	"FieldTransferSize": hotline.FieldTransferSize,
	"FieldChatOptions": hotline.FieldChatOptions,
	"FieldUserAccess": hotline.FieldUserAccess,
	"FieldUserFlags": hotline.FieldUserFlags,
	"FieldOptions": hotline.FieldOptions,
	"FieldChatID": hotline.FieldChatID,
	"FieldChatSubject": hotline.FieldChatSubject,
	"FieldWaitingCount": hotline.FieldWaitingCount,
	"FieldBannerType": hotline.FieldBannerType,
	"FieldNoServerAgreement": hotline.FieldNoServerAgreement,
	"FieldVersion": hotline.FieldVersion,
	"FieldCommunityBannerID": hotline.FieldCommunityBannerID,
	"FieldServerName": hotline.FieldServerName,
	"FieldFileNameWithInfo": hotline.FieldFileNameWithInfo,
	"FieldFileName": hotline.FieldFileName,
	"FieldFilePath": hotline.FieldFilePath,
	"FieldFileResumeData": hotline.FieldFileResumeData,
	"FieldFileTransferOptions": hotline.FieldFileTransferOptions,
	"FieldFileTypeString": hotline.FieldFileTypeString,
	"FieldFileCreatorString": hotline.FieldFileCreatorString,
	"FieldFileSize": hotline.FieldFileSize,
	"FieldFileCreateDate": hotline.FieldFileCreateDate,
	"FieldFileModifyDate": hotline.FieldFileModifyDate,
	"FieldFileComment": hotline.FieldFileComment,
	"FieldFileNewName": hotline.FieldFileNewName,
	"FieldFileNewPath": hotline.FieldFileNewPath,
	"FieldFileType": hotline.FieldFileType,
	"FieldQuotingMsg": hotline.FieldQuotingMsg,
	"FieldAutomaticResponse": hotline.FieldAutomaticResponse,
	"FieldFolderItemCount": hotline.FieldFolderItemCount,
	"FieldUsernameWithInfo": hotline.FieldUsernameWithInfo,
	"FieldNewsArtListData": hotline.FieldNewsArtListData,
	"FieldNewsCatName": hotline.FieldNewsCatName,
	"FieldNewsCatListData15": hotline.FieldNewsCatListData15,
	"FieldNewsPath": hotline.FieldNewsPath,
	"FieldNewsArtID": hotline.FieldNewsArtID,
	"FieldNewsArtDataFlav": hotline.FieldNewsArtDataFlav,
	"FieldNewsArtTitle": hotline.FieldNewsArtTitle,
	"FieldNewsArtPoster": hotline.FieldNewsArtPoster,
	"FieldNewsArtDate": hotline.FieldNewsArtDate,
	"FieldNewsArtPrevArt": hotline.FieldNewsArtPrevArt,
	"FieldNewsArtNextArt": hotline.FieldNewsArtNextArt,
	"FieldNewsArtData": hotline.FieldNewsArtData,
	"FieldNewsArtParentArt": hotline.FieldNewsArtParentArt,
	"FieldNewsArt1stChildArt": hotline.FieldNewsArt1stChildArt,
	"FieldNewsArtRecurseDel": hotline.FieldNewsArtRecurseDel,
}

var goAccess = map[string]int{
	"AccessDeleteFile": hotline.AccessDeleteFile,
	"AccessUploadFile": hotline.AccessUploadFile,
	"AccessDownloadFile": hotline.AccessDownloadFile,
	"AccessRenameFile": hotline.AccessRenameFile,
	"AccessMoveFile": hotline.AccessMoveFile,
	"AccessCreateFolder": hotline.AccessCreateFolder,
	"AccessDeleteFolder": hotline.AccessDeleteFolder,
	"AccessRenameFolder": hotline.AccessRenameFolder,
	"AccessMoveFolder": hotline.AccessMoveFolder,
	"AccessReadChat": hotline.AccessReadChat,
	"AccessSendChat": hotline.AccessSendChat,
	"AccessOpenChat": hotline.AccessOpenChat,
	"AccessCloseChat": hotline.AccessCloseChat,
	"AccessShowInList": hotline.AccessShowInList,
	"AccessCreateUser": hotline.AccessCreateUser,
	"AccessDeleteUser": hotline.AccessDeleteUser,
	"AccessOpenUser": hotline.AccessOpenUser,
	"AccessModifyUser": hotline.AccessModifyUser,
	"AccessChangeOwnPass": hotline.AccessChangeOwnPass,
	"AccessNewsReadArt": hotline.AccessNewsReadArt,
	"AccessNewsPostArt": hotline.AccessNewsPostArt,
	"AccessDisconUser": hotline.AccessDisconUser,
	"AccessCannotBeDiscon": hotline.AccessCannotBeDiscon,
	"AccessGetClientInfo": hotline.AccessGetClientInfo,
	"AccessUploadAnywhere": hotline.AccessUploadAnywhere,
	"AccessAnyName": hotline.AccessAnyName,
	"AccessNoAgreement": hotline.AccessNoAgreement,
	"AccessSetFileComment": hotline.AccessSetFileComment,
	"AccessSetFolderComment": hotline.AccessSetFolderComment,
	"AccessViewDropBoxes": hotline.AccessViewDropBoxes,
	"AccessMakeAlias": hotline.AccessMakeAlias,
	"AccessBroadcast": hotline.AccessBroadcast,
	"AccessNewsDeleteArt": hotline.AccessNewsDeleteArt,
	"AccessNewsCreateCat": hotline.AccessNewsCreateCat,
	"AccessNewsDeleteCat": hotline.AccessNewsDeleteCat,
	"AccessNewsCreateFldr": hotline.AccessNewsCreateFldr,
	"AccessNewsDeleteFldr": hotline.AccessNewsDeleteFldr,
	"AccessUploadFolder": hotline.AccessUploadFolder,
	"AccessDownloadFolder": hotline.AccessDownloadFolder,
	"AccessSendPrivMsg": hotline.AccessSendPrivMsg,
}

func init() {
	c01Extra = append(c01Extra, func(x *Ctx) {
		x.Add(&Family{Name: "wire-constants", Quick: 1, Thor: 1, Run: func(c *Case) {
			check := func(tbl string, name string, got int) {
				want := c.AskS("specconst", tbl, name)
				c.Note("constant", name)
				if want == "none" {
					c.Disagree("constant-unknown-"+name, "the library defines a wire constant the protocol table does not know: "+name)
					return
				}
				if fmt.Sprint(got) != want {
					c.Note("library_value", got)
					c.Note("protocol_value", want)
					c.Violation("wire-constant-"+name, fmt.Sprintf("%s is %d in the library but %s in the Hotline protocol: every object carrying it is emitted with the wrong id", name, got, want))
					return
				}
				c.Corr("constant", "same", "same", true)
				c.Nontrivial(tbl + name)
			}
			for n, v := range goTranTypes {
				check("tran", n, int(binary.BigEndian.Uint16(v[:])))
			}
			for n, v := range goFieldIDs {
				check("field", n, int(binary.BigEndian.Uint16(v[:])))
			}
			for n, v := range goAccess {
				check("access", n, v)
			}
			// nothing in the protocol table is missing from the library
			for _, tbl := range []string{"tran", "field", "access"} {
				for _, n := range strings.Fields(c.AskS("specnames", tbl)) {
					_, a := goTranTypes[n]
					_, b := goFieldIDs[n]
					_, d := goAccess[n]
					if !a && !b && !d {
						c.Disagree("constant-missing-"+n, "protocol constant not found in the library: "+n)
					}
				}
			}
			c.Evals(len(goTranTypes) + len(goFieldIDs) + len(goAccess))
		}})
	})
}
