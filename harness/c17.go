//go:build c17

package main

// C17 — disconnects and bans are enforced at the door.
//
//  gate-expiry      real BanFile + handleNewConnection: 4-6 IPv4 addresses per server, ban entries
//                   (none / permanent / expiry at now+-delta, |delta| >= 3 s) written through
//                   BanFile.Add or straight into Banlist.yaml, optionally reloaded by a fresh
//                   NewBanFile (restart), then one connection per address, concurrently
//  disconnect-ban   end to end: an administrator disconnects a logged-in user with / without the
//                   ban options; the target is told and closed, the others are told it left, the
//                   ban entry is now+30 min / permanent / absent, survives a restart, refuses the
//                   target's address and nobody else's
//  ban-history      histories of Add / restart on a real BanFile vs the reference store of the model

import (
	"bytes"
	"fmt"
	"os"
	"path/filepath"
	"sort"
	"strings"
	"sync"
	"time"

	"github.com/jhalter/mobius/hotline"
	"github.com/jhalter/mobius/internal/mobius"
	"gopkg.in/yaml.v3"
)

func randIPv4(r *RNG) string {
	return fmt.Sprintf("%d.%d.%d.%d", 1+r.Intn(223), r.Intn(256), r.Intn(256), r.Intn(256))
}

// ipPool draws distinct addresses, some of them textual neighbours of each other.
func ipPool(r *RNG, n int) []string {
	seen := map[string]bool{}
	var out []string
	for len(out) < n {
		ip := randIPv4(r)
		if len(out) > 0 && r.Chance(35) {
			base := out[r.Intn(len(out))]
			switch r.Intn(3) {
			case 0:
				ip = base + "0" // 1.2.3.4 vs 1.2.3.40
			case 1:
				ip = "1" + base // 1.2.3.4 vs 11.2.3.4
			default:
				p := strings.Split(base, ".")
				p[3] = fmt.Sprint((atoiSafe(p[3]) + 1) % 256)
				ip = strings.Join(p, ".")
			}
			if !validIPv4(ip) {
				continue
			}
		}
		if !seen[ip] {
			seen[ip] = true
			out = append(out, ip)
		}
	}
	return out
}

func atoiSafe(s string) int {
	n := 0
	for _, ch := range s {
		if ch < '0' || ch > '9' {
			return 0
		}
		n = n*10 + int(ch-'0')
	}
	return n
}

func validIPv4(s string) bool {
	p := strings.Split(s, ".")
	if len(p) != 4 {
		return false
	}
	for _, x := range p {
		if len(x) == 0 || len(x) > 3 || atoiSafe(x) > 255 || (len(x) > 1 && x[0] == '0') {
			return false
		}
	}
	return true
}

var banDeltas = []time.Duration{3 * time.Second, 5 * time.Second, 20 * time.Second, time.Minute, 29 * time.Minute, 30 * time.Minute,
	31 * time.Minute, time.Hour, 24 * time.Hour, 400 * 24 * time.Hour}

type banEntry struct {
	Listed bool
	Perm   bool
	Until  time.Time
}

type doorObs struct {
	Written    []byte
	Err        string
	Done       bool
	Registered int
	Notice     *hotline.Transaction
	LoginReply bool
	NTrans     int
	Elapsed    time.Duration
}

// knock connects from addr: handshake, then `after` (a guest login + keep-alive, nothing, or garbage).
func knock(ts *TS, mgr *recMgr, addr string, after []byte, loginID uint32, waitServed bool) doorObs {
	data := append(append([]byte{}, clientHandshake...), after...)
	conn := newScriptConn(data, nil)
	if waitServed {
		conn.gateOff = len(data)
		conn.gate = func(int) {
			// hold EOF back until the login reply and the keep-alive reply were written
			ok := waitFor(8*time.Second, func() bool {
				w := conn.Written()
				if len(w) <= 8 {
					return false
				}
				trs, _, _ := splitTransactions(w[8:])
				got := 0
				for _, t := range trs {
					if t.IsReply == 1 && (u32(t.ID) == loginID || u32(t.ID) == loginID+1) {
						got++
					}
				}
				return got >= 2
			})
			if !ok {
				stalls.Add(1)
			}
		}
	}
	t0 := time.Now()
	run := runControl(ts, conn, addr, 20*time.Second)
	o := doorObs{Written: conn.Written(), Err: errStr(run.Err), Done: run.Done, Registered: mgr.addedFrom(addr), Elapsed: time.Since(t0)}
	if len(o.Written) > 8 {
		trs, _, _ := splitTransactions(o.Written[8:])
		o.NTrans = len(trs)
		for i := range trs {
			if u16(trs[i].Type) == 104 && trs[i].IsReply == 0 && o.Notice == nil {
				o.Notice = &trs[i]
			}
			if trs[i].IsReply == 1 && u32(trs[i].ID) == loginID && u32(trs[i].ErrorCode) == 0 {
				o.LoginReply = true
			}
		}
	}
	return o
}

// refusedExactly: handshake reply + exactly one well-formed ban notice of the given kind, nothing else, not registered.
func refusedExactly(o doorObs, perm bool) string {
	if len(o.Written) < 8 || !bytes.Equal(o.Written[:8], hsReplyBytes) {
		return "no handshake reply before the refusal"
	}
	trs, rest, err := splitTransactions(o.Written[8:])
	if err != nil || len(rest) != 0 || len(trs) != 1 {
		return fmt.Sprintf("a refused peer must get exactly one transaction after the handshake reply, got %d", len(trs))
	}
	t := trs[0]
	want := tempBanText
	if perm {
		want = permBanText
	}
	if !(t.IsReply == 0 && u16(t.Type) == 104 && u32(t.ErrorCode) == 0 && len(t.Fields) == 2 && t.Fields[0].Type == hotline.FieldData &&
		bytes.Equal(t.Fields[0].Data, want) && t.Fields[1].Type == hotline.FieldChatOptions && bytes.Equal(t.Fields[1].Data, []byte{0, 0})) {
		return "the transaction sent to a refused peer is not the expected ban notice: " + tranKey(t)
	}
	if o.Registered != 0 {
		return "a refused address was registered with the client manager (its login was processed)"
	}
	if o.LoginReply {
		return "a refused address got a reply to its login"
	}
	return ""
}

func guestLoginAndKeepalive(loginID uint32) []byte {
	b := encTran(loginTranWire(107, loginID, []byte{}, []byte{}, fld(hotline.FieldUserName, []byte("knocker"))))
	return append(b, encTran(tranOf(500, loginID+1))...)
}

func bansFor(entries map[string]banEntry) []banSpec {
	var ips []string
	for ip := range entries {
		ips = append(ips, ip)
	}
	sort.Strings(ips)
	var out []banSpec
	for _, ip := range ips {
		e := entries[ip]
		if !e.Listed {
			continue
		}
		out = append(out, banSpec{IP: ip, Perm: e.Perm, Until: e.Until.UnixNano()})
	}
	return out
}

func guestOnly() []sessAcct {
	return []sessAcct{{Login: "guest", Name: "Guest", PwWire: []byte{}, Access: guestAccess()}}
}

// ---------------------------------------------------------------- gate-expiry

func gateExpiryFamily(c *Case) {
	r := c.R
	if tooManyStalls(c) {
		c.Dist("skipped/after-repeated-stalls")
		return
	}
	accts := guestOnly()
	ts, err := newTS(TSOpt{Accounts: acctSpecs(accts), Agreement: "a"})
	if err != nil {
		c.Dist("skipped/fixture")
		return
	}
	defer ts.Close()
	mgr := &recMgr{ClientManager: ts.Srv.ClientMgr}
	ts.Srv.ClientMgr = mgr
	banPath := filepath.Join(ts.Cfg, "Banlist.yaml")
	ips := ipPool(r, 4+r.Intn(3))
	entries := map[string]banEntry{}
	var hist []string // oracle history
	base := time.Now()
	nops := r.Intn(2 * len(ips))
	restarted := 0
	viaFile := 0
	for i := 0; i < nops; i++ {
		ip := ips[r.Intn(len(ips))]
		var e banEntry
		e.Listed = true
		if r.Chance(30) {
			e.Perm = true
		} else {
			d := banDeltas[r.Intn(len(banDeltas))]
			if r.Bool() {
				d = -d
			}
			// keep the expiry at least 3 s away from the instant of the connections (made within ~2 s from now)
			if d > 0 {
				d += 4 * time.Second
			}
			e.Until = base.Add(d).Add(time.Duration(r.Intn(1000000000)))
		}
		if r.Chance(25) {
			// write the ban file directly (as an operator or an earlier server run would) and load it
			m := map[string]*time.Time{}
			for k, v := range entries {
				if v.Listed {
					if v.Perm {
						m[k] = nil
					} else {
						u := v.Until
						m[k] = &u
					}
				}
			}
			if e.Perm {
				m[ip] = nil
			} else {
				u := e.Until
				m[ip] = &u
			}
			b, _ := yaml.Marshal(m)
			os.WriteFile(banPath, b, 0644)
			nb, err := mobius.NewBanFile(banPath)
			if err != nil {
				c.Note("load", err.Error())
				c.Violation("ban-file-unloadable", "a ban file written with the server's own YAML library does not load")
				return
			}
			ts.Bans = nb
			ts.Srv.BanList = nb
			viaFile++
		} else {
			var p *time.Time
			if !e.Perm {
				u := e.Until
				p = &u
			}
			if err := ts.Bans.Add(ip, p); err != nil {
				c.Note("add", err.Error())
				c.Violation("ban-add-failed", "BanFile.Add failed")
				return
			}
		}
		entries[ip] = e
		k, u := "p", int64(0)
		if !e.Perm {
			k, u = "t", e.Until.UnixNano()
		}
		hist = append(hist, "a", hx([]byte(ip)), k, fmt.Sprint(u))
		if r.Chance(25) {
			nb, err := mobius.NewBanFile(banPath)
			if err != nil {
				c.Note("reload", err.Error())
				c.Violation("ban-file-unloadable", "the ban file written by BanFile.Add does not load in a fresh instance (restart)")
				return
			}
			ts.Bans = nb
			ts.Srv.BanList = nb
			hist = append(hist, "r")
			restarted++
		}
	}
	c.Note("addresses", ips)
	c.Note("history", strings.Join(hist, " "))
	// one connection per address, concurrently
	type plan struct {
		addr    string
		ip      string
		after   []byte
		kind    string
		loginID uint32
		expect  bool // refused
		perm    bool
	}
	var plans []plan
	for i, ip := range ips {
		p := plan{ip: ip, addr: fmt.Sprintf("%s:%d", ip, 1024+r.Intn(60000)), loginID: uint32(1000 + 10*i)}
		switch k := r.Intn(100); {
		case k < 60:
			p.kind, p.after = "login", guestLoginAndKeepalive(p.loginID)
		case k < 75:
			p.kind, p.after = "nothing", nil
		case k < 88:
			p.kind, p.after = "garbage", r.Bytes(1+r.Intn(40))
		default:
			b := guestLoginAndKeepalive(p.loginID)
			p.kind, p.after = "partial-login", b[:1+r.Intn(21)]
		}
		e := entries[ip]
		p.perm = e.Listed && e.Perm
		plans = append(plans, p)
	}
	now := time.Now()
	for i := range plans {
		e := entries[plans[i].ip]
		plans[i].expect = e.Listed && (e.Perm || now.Before(e.Until))
	}
	obs := make([]doorObs, len(plans))
	var wg sync.WaitGroup
	for i := range plans {
		wg.Add(1)
		go func(i int) {
			defer wg.Done()
			p := plans[i]
			obs[i] = knock(ts, mgr, p.addr, p.after, p.loginID, p.kind == "login" && !p.expect)
		}(i)
	}
	wg.Wait()
	after := time.Now()
	c.Evals(len(plans) - 1)
	bans := bansFor(entries)
	nontrivial := false
	for i, p := range plans {
		o := obs[i]
		e := entries[p.ip]
		if e.Listed && !e.Perm && e.Until.After(now.Add(-2*time.Second)) && e.Until.Before(after.Add(2*time.Second)) {
			// the machine stalled: the expiry is no longer clearly on one side of the connection instant
			c.Dist("skipped/expiry-too-close")
			continue
		}
		state := "unlisted"
		if e.Listed && e.Perm {
			state = "permanent"
		} else if e.Listed {
			state = fmt.Sprintf("until now%+.0fs", e.Until.Sub(now).Seconds())
			if e.Until.After(now) {
				c.Dist("entry/temporary-active")
			} else {
				c.Dist("entry/temporary-expired")
			}
		}
		if !e.Listed || e.Perm {
			c.Dist("entry/" + state)
		}
		c.Dist("after-handshake/" + p.kind)
		note := func() {
			c.Note("addr", p.addr)
			c.Note("entry", state)
			c.Note("after_handshake", p.kind)
			c.Note("written", short(o.Written))
			c.Note("registered", o.Registered)
			c.Note("return", o.Err)
		}
		if !o.Done {
			note()
			c.Violation("door-hang", "handleNewConnection did not return")
			return
		}
		if p.expect {
			if why := refusedExactly(o, p.perm); why != "" {
				note()
				if o.Notice == nil {
					c.Violation("ban-not-enforced", "a connection from a banned address was not refused right after the handshake: "+why)
				} else {
					c.Violation("ban-refusal-malformed", why)
				}
				return
			}
		} else {
			if o.Notice != nil {
				note()
				if e.Listed {
					c.Violation("expired-ban-still-enforced", "an address whose temporary ban has expired was refused")
				} else {
					c.Violation("unbanned-address-refused", "an address that is not on the ban list was refused while another address is banned")
				}
				return
			}
			if p.kind == "login" && !(o.LoginReply && o.Registered == 1) {
				note()
				c.Violation("unbanned-address-not-served", "an address that is not (or no longer) banned could not log in")
				return
			}
		}
		// the model: Session.run with the final store, and the store reached through the history
		nid := uint32(0)
		if o.Notice != nil {
			nid = u32(o.Notice.ID)
		}
		data := append(append([]byte{}, clientHandshake...), p.after...)
		m := parseSessModel(askSession(c, "session", p.addr, now.UnixNano(), nid, accts, bans, [][]byte{data}))
		if !m.DispOK {
			c.Disagree("oracle-session", "the oracle could not evaluate Session.run")
			return
		}
		implRef := o.Notice != nil
		note()
		c.Note("model", clip(m.Raw))
		c.Corr("gate-decision", fmt.Sprintf("refused=%v", implRef), fmt.Sprintf("refused=%v", strings.HasPrefix(m.Outcome, "banned")), false)
		if implRef || !m.In {
			c.Corr("door-bytes", hx(o.Written), hx(m.Peer), false)
		}
		c.Corr("door-login", fmt.Sprint(o.Registered > 0), fmt.Sprint(m.In), false)
		h := c.O.Ask(fmt.Sprintf("banhist %s %d %s", hx([]byte(p.addr)), now.UnixNano(), strings.Join(hist, " ")))
		c.Corr("history-decision", fmt.Sprintf("refused=%d", b2i(implRef)), strings.Fields(h + " x")[0], false)
		if e.Listed {
			nontrivial = true
		}
	}
	if nontrivial {
		c.Nontrivial(strings.Join(hist, " ") + "|" + strings.Join(ips, ","))
	}
	c.Sample(map[string]any{"family": "gate-expiry", "addresses": len(ips), "ban_ops": nops, "restarts": restarted, "written_as_file": viaFile})
}

func b2i(b bool) int {
	if b {
		return 1
	}
	return 0
}

// ---------------------------------------------------------------- disconnect-ban

func disconnectFamily(c *Case) {
	r := c.R
	if tooManyStalls(c) {
		c.Dist("skipped/after-repeated-stalls")
		return
	}
	rootPw := wirePassword(r, 10)
	accts := []sessAcct{
		{Login: "guest", Name: "Guest", PwWire: []byte{}, Access: guestAccess()},
		{Login: "root", Name: "Root", PwWire: rootPw, Access: allAccess()},
	}
	ts, err := newTS(TSOpt{Accounts: acctSpecs(accts), Agreement: "a"})
	if err != nil {
		c.Dist("skipped/fixture")
		return
	}
	defer ts.Close()
	mgr := &recMgr{ClientManager: ts.Srv.ClientMgr}
	ts.Srv.ClientMgr = mgr
	banPath := filepath.Join(ts.Cfg, "Banlist.yaml")
	ips := ipPool(r, 4)
	targetIP, otherIP, adminIP := ips[0], ips[1], ips[2]
	targetAddr := fmt.Sprintf("%s:%d", targetIP, 2000+r.Intn(50000))
	waitCount := func(b *WireClient, n int) bool {
		return waitFor(8*time.Second, func() bool { return countTransactions(b.Conn.Written()) >= n })
	}
	var conns []*WireClient
	defer func() {
		for _, b := range conns {
			b.Conn.EOF()
		}
	}()
	login := func(addr, login string, pw []byte, name string, expect int) *WireClient {
		extra := []hotline.Field{fld(hotline.FieldVersion, []byte{0, 0xbe})}
		if name != "" { // no name field = the 1.5+ login flow: the name only comes with TranAgreed
			extra = append(extra, fld(hotline.FieldUserName, []byte(name)))
		}
		b, err := ts.LoginOK(addr, login, string(hotline.EncodeString(pw)), nil, extra...)
		conns = append(conns, b)
		if err != nil || !waitCount(b, expect) {
			return nil
		}
		b.Conn.Feed(encTran(tranOf(500, 0x70000000)))
		if !waitCount(b, expect+1) {
			return nil
		}
		return b
	}
	admin := login(adminIP+":3000", "root", rootPw, "admin", 3)
	if admin == nil {
		fixtureLoginFailed(c, "administrator login")
		return
	}
	// the target's session state: named at login; logged in without a name and not agreed yet (listed
	// with an empty name); or agreed without ever sending a name
	targetState := pickStr(r, "named", "named", "nameless-not-agreed", "nameless-not-agreed", "agreed-empty-name")
	tname := "target"
	if targetState != "named" {
		tname = ""
	}
	c.Dist("target/" + targetState)
	c.Note("target_state", targetState)
	target := login(targetAddr, "", []byte{}, tname, 3)
	if target == nil {
		fixtureLoginFailed(c, "target login")
		return
	}
	if targetState == "agreed-empty-name" {
		target.Conn.Feed(encTran(tranOf(121, 0x70000005, fld(hotline.FieldUserIconID, []byte{0, 1}), fld(hotline.FieldOptions, []byte{0, 0}))))
		if !waitCount(target, 5) {
			fixtureLoginFailed(c, "target agreement")
			return
		}
	}
	bystander := login(otherIP+":4000", "", []byte{}, "bystander", 3)
	if bystander == nil {
		fixtureLoginFailed(c, "bystander login")
		return
	}
	// a user that logged in without a name and simply leaves: the others must be told as well
	if r.Chance(50) {
		ghostAddr := ips[3] + ":4100"
		ghost := login(ghostAddr, "", []byte{}, "", 3)
		if ghost == nil {
			fixtureLoginFailed(c, "nameless user login")
			return
		}
		var ghostID [2]byte
		for _, cc := range ts.Srv.ClientMgr.List() {
			if cc.RemoteAddr == ghostAddr {
				ghostID = cc.ID
			}
		}
		from := len(bystander.Conn.Written())
		ghost.Conn.EOF()
		ghost.WaitDone(5 * time.Second)
		toldGhost := waitFor(6*time.Second, func() bool {
			trs, _, _ := splitTransactions(bystander.Conn.Written()[from:])
			for _, t := range trs {
				if u16(t.Type) == 302 && bytes.Equal(t.GetField(hotline.FieldUserID).Data, ghostID[:]) {
					return true
				}
			}
			return false
		})
		c.Dist("plain-leave-of-nameless-user")
		if !toldGhost {
			c.Note("left_user_id", u16(ghostID))
			c.Violation("others-not-told", "a listed user without a name closed its connection and the other users were not told that it left")
			return
		}
	}
	var targetID [2]byte
	found := false
	for _, cc := range ts.Srv.ClientMgr.List() {
		if cc.RemoteAddr == targetAddr {
			targetID = cc.ID
			found = true
		}
	}
	if !found {
		c.Dist("skipped/fixture")
		return
	}
	byBase := len(bystander.Conn.Written())
	tgBase := len(target.Conn.Written())
	opt := r.Pick(-1, 1, 1, 1, 2, 2, 0, 3)
	fields := []hotline.Field{fld(hotline.FieldUserID, targetID[:])}
	if opt >= 0 {
		fields = append(fields, fld(hotline.FieldOptions, []byte{0, byte(opt)}))
	}
	optName := map[int]string{-1: "none", 0: "option-0", 1: "temporary", 2: "permanent", 3: "option-3"}[opt]
	optBan := opt == 1 || opt == 2
	c.Dist("disconnect/" + optName)
	c.Note("option", optName)
	c.Note("target", targetAddr)
	// ---- an entry the target's address already has (placed after the target logged in): an expired
	// temporary ban that was never pruned, a running temporary ban, or a permanent one.  The new
	// request must overwrite it (newest ban decides); a plain disconnect must leave it alone.
	var pre banEntry
	preKind := "none"
	seedAt := time.Now()
	switch k := r.Intn(100); {
	case k < 40:
	case k < 62:
		pre = banEntry{Listed: true, Until: seedAt.Add(-[]time.Duration{10 * time.Second, time.Minute, 31 * time.Minute, time.Hour, 48 * time.Hour}[r.Intn(5)])}
		preKind = "expired-temporary"
	case k < 84:
		pre = banEntry{Listed: true, Until: seedAt.Add([]time.Duration{5 * time.Minute, 10 * time.Minute, 29 * time.Minute, 2 * time.Hour}[r.Intn(4)])}
		preKind = "running-temporary"
	default:
		pre = banEntry{Listed: true, Perm: true}
		preKind = "permanent"
	}
	var histPre string
	if pre.Listed {
		var p *time.Time
		if !pre.Perm {
			u := pre.Until
			p = &u
		}
		if r.Bool() {
			// as left behind by an earlier server run: written into the ban file, then loaded
			b, _ := yaml.Marshal(map[string]*time.Time{targetIP: p})
			os.WriteFile(banPath, b, 0644)
			nb, err := mobius.NewBanFile(banPath)
			if err != nil {
				c.Violation("ban-file-unloadable", "a ban file written with the server's own YAML library does not load")
				return
			}
			ts.Bans = nb
			ts.Srv.BanList = nb
		} else if err := ts.Bans.Add(targetIP, p); err != nil {
			c.Violation("ban-add-failed", "BanFile.Add failed")
			return
		}
		if pre.Perm {
			histPre = fmt.Sprintf("a %s p 0 ", hx([]byte(targetIP)))
		} else {
			histPre = fmt.Sprintf("a %s t %d ", hx([]byte(targetIP)), pre.Until.UnixNano())
		}
	}
	c.Dist("existing-entry/" + preKind)
	c.Note("existing_entry", preKind)
	t0 := time.Now()
	admin.Conn.Feed(encTran(tranOf(110, 4242, fields...)))
	rep, ok := admin.ReplyTo(4242, 5*time.Second)
	t1 := time.Now()
	if !ok || u32(rep.ErrorCode) != 0 {
		c.Note("reply", fmt.Sprint(rep))
		c.Violation("disconnect-not-acknowledged", "the administrator's disconnect request got no success reply")
		return
	}
	// ---- ban entry: the newest request decides; without a ban option the existing entry stays
	listed, until := ts.Bans.IsBanned(targetIP)
	final := pre
	if opt == 1 {
		final = banEntry{Listed: true}
	} else if opt == 2 {
		final = banEntry{Listed: true, Perm: true}
	}
	wantListed := final.Listed
	unchanged := listed == pre.Listed && (!pre.Listed || (pre.Perm && until == nil) || (!pre.Perm && until != nil && until.Equal(pre.Until)))
	if optBan && pre.Listed && unchanged && !(opt == 2 && pre.Perm) {
		c.Note("stored", fmt.Sprint(listed, until))
		c.Violation("reban-dropped", fmt.Sprintf("a %s ban of an address that already has a ban-list entry (%s) was silently dropped: the entry is unchanged", optName, preKind))
		return
	}
	if listed != wantListed {
		c.Note("listed", listed)
		c.Violation("ban-entry-wrong", fmt.Sprintf("disconnect with %s (existing entry: %s): ban list entry present=%v, expected %v", optName, preKind, listed, wantListed))
		return
	}
	if final.Listed && final.Perm && until != nil {
		c.Violation("ban-entry-wrong", fmt.Sprintf("disconnect with %s (existing entry: %s): the entry must be permanent but has an expiry", optName, preKind))
		return
	}
	if final.Listed && !final.Perm && until == nil {
		c.Violation("ban-entry-wrong", fmt.Sprintf("disconnect with %s (existing entry: %s): the entry must be temporary but is permanent", optName, preKind))
		return
	}
	if opt == 1 {
		lo, hi := t0.Add(30*time.Minute), t1.Add(30*time.Minute)
		if until.Before(lo) || until.After(hi) {
			c.Note("until_minus_request", until.Sub(t0).String())
			c.Violation("ban-duration-wrong", "a temporary ban does not expire 30 minutes after the request")
			return
		}
		// the model's constant
		dur := c.O.Ask("banduration")
		c.Corr("ban-duration", fmt.Sprint(int64(hotline.BanDuration)), dur, false)
	} else if !optBan && pre.Listed && !unchanged {
		c.Note("stored", fmt.Sprint(listed, until))
		c.Violation("ban-entry-wrong", "a disconnect without a ban option changed the address's existing ban entry")
		return
	}
	if final.Listed && !final.Perm {
		final.Until = *until
	}
	// refused at the door iff the final entry is permanent or still running
	wantRefused := final.Listed && (final.Perm || final.Until.After(time.Now().Add(3*time.Second)))
	for _, ip := range []string{otherIP, adminIP} {
		if l, _ := ts.Bans.IsBanned(ip); l {
			c.Violation("ban-hit-other-address", "banning one address listed another address")
			return
		}
	}
	// ---- reconnects while the delayed disconnect is pending (all concurrently; refused ones sleep 1 s)
	type kn struct {
		addr   string
		id     uint32
		expect bool
		after  []byte
		kind   string
	}
	kns := []kn{
		{addr: fmt.Sprintf("%s:%d", targetIP, 60001), id: 9000, expect: wantRefused, kind: "login"},
		{addr: fmt.Sprintf("%s:%d", otherIP, 60002), id: 9100, expect: false, kind: "login"},
	}
	if r.Chance(50) {
		kns = append(kns, kn{addr: fmt.Sprintf("%s:%d", targetIP, 60003), id: 9200, expect: wantRefused, kind: "nothing"})
	}
	for i := range kns {
		if kns[i].kind == "login" {
			kns[i].after = guestLoginAndKeepalive(kns[i].id)
		}
	}
	// restart in half of the cases before knocking
	restart := r.Chance(50)
	if restart {
		nb, err := mobius.NewBanFile(banPath)
		if err != nil {
			if wantListed {
				c.Note("reload", err.Error())
				c.Violation("ban-file-unloadable", "the ban file does not load after a restart")
				return
			}
		} else {
			l2, u2 := nb.IsBanned(targetIP)
			same := l2 == listed && (u2 == nil) == (until == nil) && (u2 == nil || u2.Equal(*until))
			if !same {
				c.Note("before", fmt.Sprint(listed, until))
				c.Note("after", fmt.Sprint(l2, u2))
				c.Violation("ban-lost-on-restart", "the ban entry read back by a fresh BanFile differs from the one in memory")
				return
			}
			ts.Bans = nb
			ts.Srv.BanList = nb
		}
	}
	obs := make([]doorObs, len(kns))
	var wg sync.WaitGroup
	for i := range kns {
		wg.Add(1)
		go func(i int) {
			defer wg.Done()
			obs[i] = knock(ts, mgr, kns[i].addr, kns[i].after, kns[i].id, kns[i].kind == "login" && !kns[i].expect)
		}(i)
	}
	// ---- meanwhile: the target is told, closed after ~1 s, the others are told it left
	closed := waitFor(6*time.Second, func() bool { return target.Conn.IsClosed() })
	told := waitFor(6*time.Second, func() bool {
		w := bystander.Conn.Written()
		trs, _, _ := splitTransactions(w[byBase:])
		for _, t := range trs {
			if u16(t.Type) == 302 && bytes.Equal(t.GetField(hotline.FieldUserID).Data, targetID[:]) {
				return true
			}
		}
		return false
	})
	wg.Wait()
	c.Evals(len(kns))
	if !closed {
		c.Violation("target-not-disconnected", "the disconnected user's connection was not closed")
		return
	}
	if !told {
		c.Violation("others-not-told", "the other users were not told that the disconnected user ("+targetState+") left")
		return
	}
	for _, cc := range ts.Srv.ClientMgr.List() {
		if cc.ID == targetID && cc.RemoteAddr == targetAddr {
			c.Violation("target-still-listed", "the disconnected user is still in the user list")
			return
		}
	}
	if optBan {
		trs, _, _ := splitTransactions(target.Conn.Written()[tgBase:])
		gotNotice := false
		want := tempBanText
		if opt == 2 {
			want = permBanText
		}
		for _, t := range trs {
			if u16(t.Type) == 104 && bytes.Equal(t.GetField(hotline.FieldData).Data, want) {
				gotNotice = true
			}
		}
		if !gotNotice {
			c.Violation("target-not-told", "the banned user was not sent the ban message before being disconnected")
			return
		}
	}
	now := time.Now()
	var bans []banSpec
	if final.Listed {
		b := banSpec{IP: targetIP, Perm: final.Perm}
		if !final.Perm {
			b.Until = final.Until.UnixNano()
		}
		bans = append(bans, b)
	}
	for i, k := range kns {
		o := obs[i]
		c.Note("knock_addr", k.addr)
		c.Note("knock_written", short(o.Written))
		c.Note("knock_registered", o.Registered)
		if k.expect {
			if why := refusedExactly(o, final.Perm); why != "" {
				if o.Notice == nil {
					c.Violation("ban-not-enforced", "after a disconnect with the "+optName+" ban option (existing entry: "+preKind+") the address was not refused: "+why)
				} else {
					c.Violation("ban-refusal-malformed", why)
				}
				return
			}
		} else {
			if o.Notice != nil {
				c.Violation("unbanned-address-refused", "an address that was not banned was refused after a disconnect ("+optName+")")
				return
			}
			if k.kind == "login" && !(o.LoginReply && o.Registered == 1) {
				c.Violation("unbanned-address-not-served", "an address that was not banned could not log in after a disconnect ("+optName+")")
				return
			}
		}
		nid := uint32(0)
		if o.Notice != nil {
			nid = u32(o.Notice.ID)
		}
		data := append(append([]byte{}, clientHandshake...), k.after...)
		m := parseSessModel(askSession(c, "session", k.addr, now.UnixNano(), nid, accts, bans, [][]byte{data}))
		c.Corr("gate-decision", fmt.Sprintf("refused=%v", o.Notice != nil), fmt.Sprintf("refused=%v", strings.HasPrefix(m.Outcome, "banned")), false)
		if o.Notice != nil {
			c.Corr("door-bytes", hx(o.Written), hx(m.Peer), false)
		}
		// the handler's entry through the model: disconnectBan at the instant implied by the stored expiry
		optArg := "none"
		if opt >= 0 {
			optArg = fmt.Sprint(opt)
		}
		at := t0.UnixNano()
		if opt == 1 && until != nil {
			at = until.UnixNano() - int64(hotline.BanDuration)
		}
		h := c.O.Ask(fmt.Sprintf("banhist %s %d %sd %s %s %d%s", hx([]byte(k.addr)), now.UnixNano(), histPre, hx([]byte(targetIP)), optArg, at, map[bool]string{true: " r", false: ""}[restart]))
		c.Corr("handler-decision", fmt.Sprintf("refused=%d", b2i(o.Notice != nil)), strings.Fields(h + " x")[0], false)
	}
	c.Nontrivial(fmt.Sprintf("%s|%s|%s|%s|%v|%d", targetState, optName, preKind, strings.Join(ips, ","), restart, len(kns)))
	c.Sample(map[string]any{"family": "disconnect-ban", "option": optName, "existing_entry": preKind, "restart_before_reconnect": restart, "reconnects": len(kns)})
}

// ---------------------------------------------------------------- ban-history

func banHistoryFamily(c *Case) {
	r := c.R
	dir, err := os.MkdirTemp("/var/tmp", "mobius-verif-ban-")
	if err != nil {
		c.Dist("skipped/fixture")
		return
	}
	defer os.RemoveAll(dir)
	path := filepath.Join(dir, "Banlist.yaml")
	bf, err := mobius.NewBanFile(path)
	if err != nil {
		c.Violation("ban-file-unloadable", "NewBanFile fails on an absent file")
		return
	}
	ips := ipPool(r, 2+r.Intn(4))
	base := time.Now()
	var hist []string
	ref := map[string]banEntry{}
	n := 1 + r.Intn(14)
	adds, reloads := 0, 0
	for i := 0; i < n; i++ {
		if r.Chance(30) {
			nb, err := mobius.NewBanFile(path)
			if err != nil {
				c.Note("history", strings.Join(hist, " "))
				c.Note("reload", err.Error())
				c.Violation("ban-file-unloadable", "the ban file does not load in a fresh instance after this history")
				return
			}
			bf = nb
			hist = append(hist, "r")
			reloads++
		} else {
			ip := ips[r.Intn(len(ips))]
			e := banEntry{Listed: true}
			var p *time.Time
			k, u := "p", int64(0)
			if r.Chance(35) {
				e.Perm = true
			} else {
				d := banDeltas[r.Intn(len(banDeltas))] + time.Duration(r.Intn(1000000000))
				if r.Bool() {
					d = -d
				}
				e.Until = base.Add(d)
				uu := e.Until
				p = &uu
				k, u = "t", e.Until.UnixNano()
			}
			if err := bf.Add(ip, p); err != nil {
				c.Violation("ban-add-failed", "BanFile.Add failed")
				return
			}
			ref[ip] = e
			hist = append(hist, "a", hx([]byte(ip)), k, fmt.Sprint(u))
			adds++
		}
		// after every step: every address answers like the reference store
		for _, ip := range ips {
			listed, until := bf.IsBanned(ip)
			impl := "unlisted"
			if listed && until == nil {
				impl = "permanent"
			} else if listed {
				impl = fmt.Sprintf("until:%d", until.UnixNano())
			}
			want := "unlisted"
			if e := ref[ip]; e.Listed && e.Perm {
				want = "permanent"
			} else if e.Listed {
				want = fmt.Sprintf("until:%d", e.Until.UnixNano())
			}
			if impl != want {
				c.Note("history", strings.Join(hist, " "))
				c.Note("address", ip)
				c.Note("impl", impl)
				c.Note("want", want)
				c.Violation("ban-store-wrong", "after this history of bans and restarts an address's entry is not its newest ban")
				return
			}
			h := c.O.Ask(fmt.Sprintf("banhist %s %d %s", hx([]byte(ip+":1")), base.UnixNano(), strings.Join(hist, " ")))
			f := strings.Fields(h + " x x")
			c.Corr("history-entry", "entry="+impl, f[1], false)
		}
	}
	if adds > 0 && reloads > 0 {
		c.Nontrivial(strings.Join(hist, " "))
	}
	c.Dist(fmt.Sprintf("history/adds=%d", min(adds, 8)))
	c.Sample(map[string]any{"family": "ban-history", "adds": adds, "restarts": reloads, "addresses": len(ips)})
}

// ---------------------------------------------------------------- concurrent-bans

// K concurrent ban requests for different addresses (each client connection has its own goroutine
// in the server), several rounds, restarts in between: every acknowledged ban must be in the file
// a fresh NewBanFile loads, and the file must load.
func concurrentBansFamily(c *Case) {
	r := c.R
	dir, err := os.MkdirTemp("/var/tmp", "mobius-verif-cban-")
	if err != nil {
		c.Dist("skipped/fixture")
		return
	}
	defer os.RemoveAll(dir)
	path := filepath.Join(dir, "Banlist.yaml")
	bf, err := mobius.NewBanFile(path)
	if err != nil {
		c.Violation("ban-file-unloadable", "NewBanFile fails on an absent file")
		return
	}
	base := time.Now()
	ref := map[string]banEntry{}
	var order []string
	var hist []string
	rounds := 5 + r.Intn(9)
	total, unack := 0, 0
	check := func(where string) bool {
		nb, err := mobius.NewBanFile(path)
		if err != nil {
			c.Note("where", where)
			c.Note("load_error", err.Error())
			c.Note("bans_acknowledged", total-unack)
			c.Violation("ban-file-unloadable", "after concurrent ban requests the ban file does not load in a fresh instance (the server would not start)")
			return false
		}
		for _, ip := range order {
			e := ref[ip]
			listed, until := nb.IsBanned(ip)
			ok := listed && ((e.Perm && until == nil) || (!e.Perm && until != nil && until.Equal(e.Until)))
			if !ok {
				c.Note("where", where)
				c.Note("address", ip)
				c.Note("expected_permanent", e.Perm)
				c.Note("read_back", fmt.Sprint(listed, until))
				c.Note("bans_acknowledged", total-unack)
				c.Violation("concurrent-ban-lost", "a ban acknowledged by BanFile.Add while other bans were being saved is missing (or different) after a restart")
				return false
			}
		}
		bf = nb
		return true
	}
	for round := 0; round < rounds; round++ {
		k := 4 + r.Intn(5)
		ips := ipPool(r, k)
		ents := make([]banEntry, k)
		ptrs := make([]*time.Time, k)
		for i := range ips {
			ents[i] = banEntry{Listed: true}
			if r.Chance(35) {
				ents[i].Perm = true
			} else {
				ents[i].Until = base.Add(banDeltas[r.Intn(len(banDeltas))] + time.Duration(r.Intn(1000000000)))
				u := ents[i].Until
				ptrs[i] = &u
			}
		}
		errs := make([]error, k)
		start := make(chan struct{})
		var wg sync.WaitGroup
		cur := bf
		for i := range ips {
			wg.Add(1)
			go func(i int) {
				defer wg.Done()
				<-start
				errs[i] = cur.Add(ips[i], ptrs[i])
			}(i)
		}
		close(start)
		wg.Wait()
		for i, ip := range ips {
			total++
			if errs[i] != nil {
				// not acknowledged: the handler only logs this; nothing is required of it afterwards
				unack++
				delete(ref, ip)
				continue
			}
			if _, seen := ref[ip]; !seen {
				order = append(order, ip)
			}
			ref[ip] = ents[i]
			kk, u := "p", int64(0)
			if !ents[i].Perm {
				kk, u = "t", ents[i].Until.UnixNano()
			}
			hist = append(hist, "a", hx([]byte(ip)), kk, fmt.Sprint(u))
		}
		// drop addresses whose newest request was not acknowledged from the list to verify
		var keep []string
		for _, ip := range order {
			if _, ok := ref[ip]; ok {
				keep = append(keep, ip)
			}
		}
		order = keep
		if r.Chance(30) {
			if !check(fmt.Sprintf("restart after round %d", round+1)) {
				return
			}
			hist = append(hist, "r")
		}
	}
	if !check("final restart") {
		return
	}
	c.Evals(total)
	// the reference store of the model (any order of the concurrent, distinct-address Adds gives this)
	for i, ip := range order {
		if i%4 != 0 {
			continue
		}
		e := ref[ip]
		want := "entry=permanent"
		if !e.Perm {
			want = fmt.Sprintf("entry=until:%d", e.Until.UnixNano())
		}
		h := c.O.Ask(fmt.Sprintf("banhist %s %d %s r", hx([]byte(ip+":1")), base.UnixNano(), strings.Join(hist, " ")))
		c.Corr("concurrent-history-entry", want, strings.Fields(h + " x x")[1], false)
	}
	if unack > 0 {
		c.Dist("concurrent/unacknowledged-add")
	}
	c.Nontrivial(strings.Join(hist, " "))
	c.Sample(map[string]any{"family": "concurrent-bans", "rounds": rounds, "bans": total, "unacknowledged": unack})
}

func init() {
	props["C17"] = func(x *Ctx) {
		x.rule = "gate-expiry: per case one real server, 4-6 distinct IPv4 addresses (35% textual neighbours: a.b.c.d vs a.b.c.d0 / 1a.b.c.d / last octet+1), 0..2n ban operations (30% permanent; temporary with expiry now +- {3s,5s,20s,1m,29m,30m,31m,1h,24h,400d}, newest wins) through BanFile.Add or by writing Banlist.yaml and loading it, 25% followed by a restart (fresh NewBanFile); then one connection per address (handshake + guest login + keep-alive / nothing / garbage / partial login), all concurrently. disconnect-ban: administrator, target and bystander logged in over the wire from distinct IPv4 addresses; disconnect request with option none/0/1/2/3; reconnects from the target's and another address, half of them after a restart. disconnect-ban: the target is named at login / logged in without a name and has not agreed / agreed with an empty name; in 50% a nameless user also simply leaves (the others must be told in every case); additionally: in 60% the target's address already has an entry (expired temporary / running temporary / permanent, added or written into the ban file) that the request must overwrite (a plain disconnect must leave it). ban-history: 1..14 Add/restart operations over 2-5 addresses, every address queried after every step. concurrent-bans: 5..13 rounds of 4..8 simultaneous BanFile.Add calls for distinct addresses, 30% restarts between rounds, final restart: the file must load and hold every acknowledged ban. non-trivial = at least one listed address is knocked on / a ban option case / a history with both an Add and a restart; distinct = distinct histories and address sets"
		x.assume = []string{
			"expiry instants are kept at least 3 s away from the instant of the connection (the decision near the boundary depends on scheduling)",
			"the 30-minute duration is checked as: stored expiry within [request sent, reply received] + 30 min; the expiry itself is exercised with entries placed directly in the ban list",
			"IPv4 peers only (the address is split at the first ':')",
			"gopkg.in/yaml.v3 round-trips map[string]*time.Time (exercised by every restart in these families; a parameter of the theorems)",
		}
		x.Add(&Family{Name: "gate-expiry", Quick: 176, Thor: 3000, Run: gateExpiryFamily})
		x.Add(&Family{Name: "disconnect-ban", Quick: 64, Thor: 1200, Run: disconnectFamily})
		x.Add(&Family{Name: "ban-history", Quick: 500, Thor: 20000, Run: banHistoryFamily})
		x.Add(&Family{Name: "concurrent-bans", Quick: 60, Thor: 1500, Run: concurrentBansFamily})
		c17WaveD(x)
	}
}
