//go:build c13

package main

// C13 — presence converges; user ids address one live user.
//
// Direct mode over the real MemClientMgr and the real handlers: generated histories of connect /
// agreed / set-client-user-info / set-user / disconnect / going away (what keepaliveHandler does after 300 idle seconds) and coming back (a request through the real handleTransaction) / instant message / fetch; the harness keeps an
// inbox per connection (every transaction a handler returned or queued, routed by its ClientID through
// the real client table, as sendTransaction does), folds each client's roster from its inbox and
// compares it with a fresh user-list reply whenever no login is half-way.  Synthetic long histories
// drive the id allocator across 65 535 and across 2^32.  Every output is also compared with the Lean
// model of the same history.

import (
	"bytes"
	"encoding/binary"
	"fmt"
	"os"
	"sort"
	"strings"
	"sync"
	"time"

	"github.com/jhalter/mobius/hotline"
)

type c13Acct struct {
	login string
	bits  []int
	name  *string // account Name; nil = "Acct-<index>"
}

var c13Blank = ""

var c13Accts = []c13Acct{
	{"g0", []int{hotline.AccessSendPrivMsg}, nil},
	{"g1", []int{hotline.AccessSendPrivMsg, hotline.AccessAnyName, hotline.AccessOpenChat}, nil},
	{"g2", []int{hotline.AccessSendPrivMsg, hotline.AccessAnyName, hotline.AccessDisconUser, hotline.AccessModifyUser, hotline.AccessGetClientInfo, hotline.AccessOpenChat}, nil},
	{"g3", nil, nil},
	{"g4", []int{hotline.AccessAnyName, hotline.AccessModifyUser}, nil},
	{"g5", []int{hotline.AccessSendPrivMsg, hotline.AccessDisconUser, hotline.AccessCannotBeDiscon, hotline.AccessGetClientInfo}, nil},
	// an account whose Name is empty and that may not choose its name: every name the server derives for it is blank
	{"g6", []int{hotline.AccessSendPrivMsg}, &c13Blank},
}

func c13AcctName(i int) string {
	if c13Accts[i].name != nil {
		return *c13Accts[i].name
	}
	return fmt.Sprintf("Acct-%d", i)
}

func c13Accounts() []AcctSpec {
	var as []AcctSpec
	for i, a := range c13Accts {
		as = append(as, AcctSpec{Login: a.login, Name: c13AcctName(i), Access: accessOf(a.bits...)})
	}
	return as
}

type rEntry struct {
	id    int
	name  string
	icon  string
	flags int
}

func (e rEntry) String() string {
	return fmt.Sprintf("%d/%s/%s/%d", e.id, dataStr([]byte(e.name)), hx([]byte(e.icon)), e.flags)
}

func rosterStr(m map[int]rEntry) string {
	if len(m) == 0 {
		return "."
	}
	var ids []int
	for i := range m {
		ids = append(ids, i)
	}
	sort.Ints(ids)
	s := make([]string, len(ids))
	for k, i := range ids {
		s[k] = m[i].String()
	}
	return strings.Join(s, ",")
}

func isUserList(t *hotline.Transaction) bool {
	if t.IsReply != 1 || t.ErrorCode != [4]byte{} || len(t.Fields) == 0 {
		return false
	}
	for _, f := range t.Fields {
		if u16(f.Type[:]) != 300 {
			return false
		}
	}
	return true
}

// parseUserList decodes the field-300 records of a user-list reply; ok=false when a record is malformed.
func parseUserList(t *hotline.Transaction) (map[int]rEntry, []int, bool) {
	m := map[int]rEntry{}
	var order []int
	for _, f := range t.Fields {
		b := f.Data
		if len(b) < 8 {
			return m, order, false
		}
		n := int(binary.BigEndian.Uint16(b[6:8]))
		if len(b) != 8+n {
			return m, order, false
		}
		e := rEntry{id: u16(b[0:2]), icon: string(b[2:4]), flags: u16(b[4:6]), name: string(b[8 : 8+n])}
		m[e.id] = e
		order = append(order, e.id)
	}
	return m, order, true
}

func normIcon(b []byte) []byte {
	if len(b) == 4 {
		return b[2:]
	}
	return b
}

// foldRoster is the client side of the property: the last fetched list, then every user-change (301)
// upserted and every user-left (302) removed, in the order received.
func foldRoster(inbox []hotline.Transaction) (map[int]rEntry, bool) {
	var m map[int]rEntry
	for i := range inbox {
		t := &inbox[i]
		switch {
		case isUserList(t):
			m, _, _ = parseUserList(t)
		case t.IsReply == 0 && tranType(t) == 301 && m != nil:
			id, _ := fieldOf(t, 103)
			nm, _ := fieldOf(t, 102)
			ic, _ := fieldOf(t, 104)
			fl, _ := fieldOf(t, 112)
			m[u16(id)] = rEntry{id: u16(id), name: string(nm), icon: string(normIcon(ic)), flags: u16(fl)}
		case t.IsReply == 0 && tranType(t) == 302 && m != nil:
			id, _ := fieldOf(t, 103)
			delete(m, u16(id))
		}
	}
	return m, m != nil
}

type c13cl struct {
	cc      *hotline.ClientConn
	nc      *nopConn
	id      int
	acct    int
	live    bool
	agreed  bool
	fetched bool
	inbox   []hotline.Transaction
	// what the client itself last asked for (the reference for "honours the recipient's refuse flag and automatic
	// reply"): refuse = option bit 0 of its last options; auto = the text sent with option bit 2, nil once a later
	// options field came without that bit
	refuseSpec bool
	autoSpec   []byte
	// looped clients (wave d): logged in through the real handleNewConnection over an in-memory connection whose
	// goroutine keeps running the real connection loop; nil for clients registered directly
	wc *WireClient
	// wave e: the connection the server holds for this client when the history injects faults at connection teardown
	// (Close returns an error); nil otherwise
	fc *faultConn
}

type c13run struct {
	c       *Case
	ts      *TS
	clients []*c13cl
	evs     []string
	impl    []string
	req     uint32
	ops     map[string]int
	checks  int
	loop    bool // presence-history: some clients log in through the real handleNewConnection
	barrier uint32
	faults  bool // wave e (teardown-faults): the server's side of a connection may fail on Close (c13_wave_e.go)
}

func (h *c13run) live() []*c13cl {
	var l []*c13cl
	for _, c := range h.clients {
		if c.live {
			l = append(l, c)
		}
	}
	return l
}

func (h *c13run) holder(cc *hotline.ClientConn) *c13cl {
	for _, c := range h.clients {
		if c.cc == cc {
			return c
		}
	}
	return nil
}

// deliver routes outputs the way sendTransaction does: by ClientID through the real client table.
func (h *c13run) deliver(outs []hotline.Transaction) {
	for _, t := range outs {
		if cc := h.ts.Srv.ClientMgr.Get(t.ClientID); cc != nil {
			if cl := h.holder(cc); cl != nil {
				cl.inbox = append(cl.inbox, t)
			}
		}
	}
}

func (h *c13run) record(ev string, outs []hotline.Transaction) {
	h.evs = append(h.evs, ev)
	h.impl = append(h.impl, outsStr(outs))
	h.deliver(outs)
}

func (h *c13run) idsCheck(when string) {
	seen := map[int]bool{}
	l := h.ts.Srv.ClientMgr.List()
	for _, cc := range l {
		id := int(binary.BigEndian.Uint16(cc.ID[:]))
		if id == 0 {
			h.c.Violation("user-id-zero", "a connected user holds user id 0 ("+when+")")
		}
		if seen[id] {
			h.c.Violation("user-id-shared", fmt.Sprintf("two connected users share user id %d (%s)", id, when))
		}
		seen[id] = true
	}
	n := 0
	for _, c := range h.clients {
		if c.live {
			n++
			if h.ts.Srv.ClientMgr.Get(c.cc.ID) != c.cc {
				h.c.Violation("live-user-replaced", fmt.Sprintf("connected user %d is no longer the holder of its id in the client table (%s)", c.id, when))
			}
		}
	}
	if n != len(l) {
		h.c.Violation("client-table-size", fmt.Sprintf("%d users are connected but the client table lists %d (%s)", n, len(l), when))
	}
}

func (h *c13run) settled() bool {
	for _, c := range h.live() {
		if !c.agreed {
			return false
		}
	}
	return true
}

// convergenceCheck: every client that fetched a list holds, after folding, exactly a fresh user-list reply.
func (h *c13run) convergenceCheck(when string) {
	if !h.settled() {
		return
	}
	lv := h.live()
	if len(lv) == 0 {
		return
	}
	res, _, p := callSync(h.ts, lv[0].cc, mkTran(hotline.TranGetUserNameList, 77))
	if p != nil || len(res) != 1 {
		h.c.Violation("user-list-failed", "a user-list request produced no single reply")
		return
	}
	fresh, order, ok := parseUserList(&res[0])
	if !ok {
		h.c.Violation("user-list-malformed", "a record of the user list reply does not parse (id, icon, flags, name length, name)")
		return
	}
	if !sort.IntsAreSorted(order) || len(fresh) != len(order) {
		h.c.Violation("user-list-duplicates", "the user list reply lists an id twice or out of order")
	}
	want := rosterStr(fresh)
	for _, c := range lv {
		if !c.fetched {
			continue
		}
		got, ok := foldRoster(c.inbox)
		if !ok {
			continue
		}
		h.checks++
		if rosterStr(got) != want {
			h.c.Note("when", when)
			h.c.Note("client", c.id)
			h.c.Note("folded_roster", clip(rosterStr(got)))
			h.c.Note("fresh_list", clip(want))
			h.c.Violation("roster-diverges", fmt.Sprintf("user %d: folding the notifications it received onto the list it fetched does not give the server's current user list (nothing in flight, no login half-way)", c.id))
			return
		}
	}
}

func c13Name(r *RNG) []byte {
	n := r.Pick(0, 1, 3, 6, 10, 13, 14, 31, 40, 41, 64)
	if r.Chance(2) {
		n = r.Pick(300, 1000)
	}
	return textBytes(r, n)
}

func optTok(b []byte, present bool) string {
	if !present {
		return "none"
	}
	return hx(b)
}

func (h *c13run) connect(r *RNG) *c13cl {
	if h.loop && r.Chance(45) {
		if cl := h.loginLoop(r); cl != nil {
			return cl
		}
	}
	a := r.Intn(len(c13Accts))
	cc, nc := h.ts.DirectClient(c13Accts[a].login, nil, fmt.Sprintf("10.2.%d.%d:4000", len(h.clients)/200, len(h.clients)%200+1))
	cl := &c13cl{cc: cc, nc: nc, id: int(binary.BigEndian.Uint16(cc.ID[:])), acct: a, live: true}
	if h.faults {
		cl.fc = newFaultConn(nc, r.Intn(c13CloseModes), nc.IsClosed)
		cc.Connection = cl.fc
	}
	h.clients = append(h.clients, cl)
	h.record(fmt.Sprintf("C %s %s %s %s", hx([]byte(cc.Account.Login)), hx([]byte(cc.Account.Name)), hx(cc.Account.Access[:]), hx(cc.Icon)), nil)
	h.ops["connect"]++
	return cl
}

func (h *c13run) call(cl *c13cl, t hotline.Transaction) ([]hotline.Transaction, bool) {
	res, queued, p := callSync(h.ts, cl.cc, t)
	if p != nil {
		h.c.Note("panic", fmt.Sprint(p))
		h.c.Note("request", outStr(t))
		h.c.Violation("presence-handler-panic", "a handler panicked on a well-formed request of the history")
		return nil, false
	}
	return append(queued, res...), true
}

func (h *c13run) agree(r *RNG, cl *c13cl) {
	h.req++
	name := c13Name(r)
	icon := be16(r.Intn(4000))
	if r.Chance(15) {
		icon = append([]byte{0, 0}, icon...) // some clients send the icon as a 4-byte integer
	}
	opts := r.Intn(8)
	auto := textBytes(r, r.Pick(0, 1, 5, 30))
	fields := []hotline.Field{fld(hotline.FieldUserIconID, icon), fld(hotline.FieldOptions, be16(opts))}
	namePresent := !r.Chance(10)
	if namePresent {
		fields = append(fields, fld(hotline.FieldUserName, name))
	}
	autoPresent := opts&4 != 0 || r.Chance(20)
	if autoPresent {
		fields = append(fields, fld(hotline.FieldAutomaticResponse, auto))
	}
	outs, ok := h.call(cl, mkTran(hotline.TranAgreed, h.req, fields...))
	if !ok {
		return
	}
	cl.agreed = true
	cl.refuseSpec = opts&1 != 0
	if opts&4 != 0 {
		cl.autoSpec = append([]byte{}, auto...) // bit 2 implies the field is present here
	}
	h.record(fmt.Sprintf("A %d %d %s %s %d %s", cl.id, h.req, optTok(name, namePresent), hx(icon), opts, optTok(auto, autoPresent)), outs)
	h.optionsHonoured(cl, opts, "agreed")
	h.othersNotified(cl, outs, false, "agreed")
	h.ops["agreed"]++
	// a client normally asks for the user list as soon as its login is complete
	if r.Chance(75) {
		h.fetch(cl)
	}
}

// goAway does for one client what keepaliveHandler does once it has been idle for more than 300 s: set the away flag
// and tell everybody (SendAll), the user itself included.
func (h *c13run) goAway(cl *c13cl) {
	if cl.cc.Flags.IsSet(hotline.UserFlagAway) {
		return
	}
	cl.cc.Flags.Set(hotline.UserFlagAway, 1)
	cl.cc.SendAll(
		hotline.TranNotifyChangeUser,
		hotline.NewField(hotline.FieldUserID, cl.cc.ID[:]),
		hotline.NewField(hotline.FieldUserFlags, cl.cc.Flags[:]),
		hotline.NewField(hotline.FieldUserName, cl.cc.UserName),
		hotline.NewField(hotline.FieldUserIconID, cl.cc.Icon),
	)
	outs := syncOutbox(h.ts)
	h.record(fmt.Sprintf("AW %d", cl.id), outs)
	h.othersNotified(cl, outs, true, "going away")
	h.ops["away"]++
}

// activity sends a user-list request through the real handleTransaction (handler, then the idle bookkeeping: an away
// user is marked back and everybody must be told, the user itself included).
func (h *c13run) activity(cl *c13cl) {
	wasAway := cl.cc.Flags.IsSet(hotline.UserFlagAway)
	h.req++
	func() {
		defer func() {
			if p := recover(); p != nil {
				h.c.Note("panic", fmt.Sprint(p))
				h.c.Violation("presence-handler-panic", "handleTransaction panicked on a user-list request")
			}
		}()
		cl.cc.VerifHandleTransaction(mkTran(hotline.TranGetUserNameList, h.req))
	}()
	outs := syncOutbox(h.ts)
	var replies, rest []hotline.Transaction
	for _, t := range outs {
		if t.IsReply == 1 {
			replies = append(replies, t)
		} else {
			rest = append(rest, t)
		}
	}
	cl.fetched = true
	h.record(fmt.Sprintf("F %d %d", cl.id, h.req), replies)
	h.record(fmt.Sprintf("WK %d", cl.id), rest)
	if cl.cc.Flags.IsSet(hotline.UserFlagAway) {
		h.c.Violation("away-not-cleared", "a request other than a keep-alive left the user marked away")
	}
	if wasAway {
		h.othersNotified(cl, rest, true, "coming back from away")
		h.ops["back-from-away"]++
	} else {
		h.ops["activity"]++
	}
}

func (h *c13run) fetch(cl *c13cl) {
	h.req++
	outs, ok := h.call(cl, mkTran(hotline.TranGetUserNameList, h.req))
	if !ok {
		return
	}
	cl.fetched = true
	h.record(fmt.Sprintf("F %d %d", cl.id, h.req), outs)
	h.ops["fetch"]++
}

// optionsHonoured: the refuse-private-messages user flag follows the option the client sent.
func (h *c13run) optionsHonoured(cl *c13cl, opts int, when string) {
	if cl.cc.Flags.IsSet(hotline.UserFlagRefusePM) != (opts&1 != 0) || cl.cc.Flags.IsSet(hotline.UserFlagRefusePChat) != (opts&2 != 0) {
		h.c.Violation("options-not-honoured", "after "+when+" the user's refuse flags differ from the options the client sent")
	}
}

// othersNotified: a change of (name, icon, flags) is announced exactly once to every other connected user
// (and to the user itself when self=true), carrying the user's current values.
func (h *c13run) othersNotified(cl *c13cl, outs []hotline.Transaction, self bool, when string) {
	got := map[int]int{}
	for i := range outs {
		t := &outs[i]
		if t.IsReply == 1 || tranType(t) != 301 {
			continue
		}
		if d, _ := fieldOf(t, 103); u16(d) != cl.id {
			continue
		}
		if cc := h.ts.Srv.ClientMgr.Get(t.ClientID); cc != nil {
			got[int(binary.BigEndian.Uint16(cc.ID[:]))]++
		}
		nm, _ := fieldOf(t, 102)
		ic, hasIcon := fieldOf(t, 104)
		fl, _ := fieldOf(t, 112)
		if !bytes.Equal(nm, cl.cc.UserName) || !hasIcon || !bytes.Equal(ic, cl.cc.Icon) || !bytes.Equal(fl, cl.cc.Flags[:]) {
			h.c.Note("notification", outStr(*t))
			h.c.Violation("user-change-incomplete", "a user-change notification ("+when+") does not carry the user's current name, icon and flags")
			return
		}
	}
	for _, o := range h.live() {
		want := 1
		if o == cl && !self {
			want = 0
		}
		if got[o.id] != want {
			h.c.Note("recipients", fmt.Sprint(got))
			h.c.Violation("user-change-audience", fmt.Sprintf("user-change notification (%s) for user %d: user %d received it %d times, expected %d", when, cl.id, o.id, got[o.id], want))
			return
		}
	}
}

func (h *c13run) step(r *RNG) {
	lv := h.live()
	if len(lv) == 0 {
		h.connect(r)
		return
	}
	actor := lv[r.Intn(len(lv))]
	op := r.Intn(100)
	switch {
	case op < 10 && len(lv) < 8:
		h.connect(r)
	case op < 16:
		// idle for more than five minutes, or active again (through the real handleTransaction)
		if !actor.agreed {
			return
		}
		if actor.cc.Flags.IsSet(hotline.UserFlagAway) || r.Chance(35) {
			h.activity(actor)
		} else {
			h.goAway(actor)
		}
	case op < 28:
		// complete a half-way login if there is one
		for _, c := range lv {
			if !c.agreed {
				h.agree(r, c)
				return
			}
		}
	case op < 38:
		if !actor.agreed {
			return
		}
		h.fetch(actor)
	case op < 56:
		if !actor.agreed {
			return
		}
		h.req++
		var fields []hotline.Field
		name := c13Name(r)
		icon := be16(r.Intn(4000))
		if r.Chance(20) {
			icon = append([]byte{0, 0}, icon...)
		}
		namePresent := !r.Chance(8)
		if namePresent {
			fields = append(fields, fld(hotline.FieldUserName, name))
		}
		fields = append(fields, fld(hotline.FieldUserIconID, icon))
		optsPresent := r.Chance(70)
		opts := r.Intn(8)
		optsTok := "none"
		if optsPresent {
			fields = append(fields, fld(hotline.FieldOptions, be16(opts)))
			optsTok = fmt.Sprint(opts)
		}
		auto := textBytes(r, r.Pick(0, 2, 9, 50))
		autoPresent := (optsPresent && opts&4 != 0) || r.Chance(15)
		if autoPresent {
			fields = append(fields, fld(hotline.FieldAutomaticResponse, auto))
		}
		outs, ok := h.call(actor, mkTran(hotline.TranSetClientUserInfo, h.req, fields...))
		if !ok {
			return
		}
		h.record(fmt.Sprintf("U %d %d %s %s %s %s", actor.id, h.req, optTok(name, namePresent), hx(icon), optsTok, optTok(auto, autoPresent)), outs)
		if optsPresent {
			h.optionsHonoured(actor, opts, "set-client-user-info")
			actor.refuseSpec = opts&1 != 0
			if opts&4 != 0 {
				actor.autoSpec = append([]byte{}, auto...)
			} else {
				actor.autoSpec = nil // automatic response switched off
			}
		}
		h.othersNotified(actor, outs, true, "set-client-user-info")
		h.ops["set-info"]++
	case op < 66:
		// privilege change through set-user
		h.req++
		tgt := r.Intn(len(c13Accts))
		login := c13Accts[tgt].login
		found := true
		if r.Chance(5) {
			login, found = "nobody", false
		}
		var acc hotline.AccessBitmap
		for _, b := range c13Accts[tgt].bits {
			if b != hotline.AccessDisconUser || r.Bool() {
				acc.Set(b)
			}
		}
		if r.Chance(40) {
			acc.Set(hotline.AccessDisconUser)
		}
		if r.Chance(10) {
			acc.Set(hotline.AccessAnyName)
		}
		mayModify := actor.cc.Account.Access.IsSet(hotline.AccessModifyUser)
		outs, ok := h.call(actor, mkTran(hotline.TranSetUser, h.req,
			fld(hotline.FieldUserLogin, hotline.EncodeString([]byte(login))), fld(hotline.FieldUserName, []byte(c13AcctName(tgt))),
			fld(hotline.FieldUserAccess, acc[:]), fld(hotline.FieldUserPassword, []byte{0})))
		if !ok {
			return
		}
		f := "1"
		if !found {
			f = "0"
		}
		h.record(fmt.Sprintf("SU %d %d %s %s %s", actor.id, h.req, hx([]byte(login)), f, hx(acc[:])), outs)
		if mayModify && found {
			for _, c := range h.live() {
				if c.cc.Account.Login == login {
					h.othersNotified(c, outs, true, "set-user")
				}
			}
			h.ops["set-user"]++
		} else {
			h.ops["set-user-denied"]++
		}
	case op >= 92:
		// a request the handler cannot digest (short / missing Options, short user id): see c13_wave_d.go
		h.malformed(r, actor)
	case op < 76 && len(lv) > 1:
		outs := h.hangUp(actor)
		actor.live = false
		h.record(fmt.Sprintf("D %d", actor.id), outs)
		got := map[int]int{}
		for i := range outs {
			if tranType(&outs[i]) == 302 {
				if d, _ := fieldOf(&outs[i], 103); u16(d) == actor.id {
					if cc := h.ts.Srv.ClientMgr.Get(outs[i].ClientID); cc != nil {
						got[int(binary.BigEndian.Uint16(cc.ID[:]))]++
					}
				}
			}
		}
		for _, o := range h.live() {
			if got[o.id] != 1 {
				h.c.Violation("user-left-audience", fmt.Sprintf("user %d disconnected: user %d received %d user-left notices, expected 1", actor.id, o.id, got[o.id]))
			}
		}
		if h.ts.Srv.ClientMgr.Get(actor.cc.ID) == actor.cc {
			h.c.Violation("disconnect-keeps-entry", "a disconnected user is still in the client table")
		}
		h.ops["disconnect"]++
	default:
		h.instantMessage(r, actor, lv)
	}
}

// instantMessage sends a private message and judges it directly against the target's refuse flag / automatic reply.
func (h *c13run) instantMessage(r *RNG, actor *c13cl, lv []*c13cl) {
	target := lv[r.Intn(len(lv))]
	if r.Chance(8) {
		h.instantMessageToID(r, actor, target, 60000+r.Intn(5000), true) // nobody holds this id
		return
	}
	h.instantMessageToID(r, actor, target, target.id, false)
}

func (h *c13run) instantMessageTo(r *RNG, actor, target *c13cl) {
	h.instantMessageToID(r, actor, target, target.id, false)
}

func (h *c13run) instantMessageToID(r *RNG, actor, target *c13cl, targetID int, stale bool) {
	h.req++
	req := h.req
	msg := textBytes(r, r.Pick(0, 1, 8, 40, 41, 300))
	fields := []hotline.Field{fld(hotline.FieldData, msg), fld(hotline.FieldUserID, be16(targetID)), fld(hotline.FieldOptions, []byte{0, 1})}
	quote := textBytes(r, r.Pick(1, 10))
	quotePresent := r.Chance(25)
	if quotePresent {
		fields = append(fields, fld(hotline.FieldQuotingMsg, quote))
	}
	may := actor.cc.Account.Access.IsSet(hotline.AccessSendPrivMsg)
	refuse := target.refuseSpec
	auto := append([]byte{}, target.autoSpec...)
	outs, ok := h.call(actor, mkTran(hotline.TranSendInstantMsg, req, fields...))
	if !ok {
		return
	}
	h.record(fmt.Sprintf("IM %d %d %d %s %s", actor.id, req, targetID, hx(msg), optTok(quote, quotePresent)), outs)
	h.ops["instant-message"]++
	// classify what each connection got
	type got struct{ msgs, refusals, autos, replies, other int }
	per := map[*c13cl]*got{}
	for i := range outs {
		t := &outs[i]
		cc := h.ts.Srv.ClientMgr.Get(t.ClientID)
		if cc == nil {
			continue
		}
		cl := h.holder(cc)
		g := per[cl]
		if g == nil {
			g = &got{}
			per[cl] = g
		}
		d, _ := fieldOf(t, 101)
		from, _ := fieldOf(t, 103)
		o, _ := fieldOf(t, 113)
		switch {
		case t.IsReply == 1:
			g.replies++
			if tranID(t) != req || cl != actor {
				h.c.Violation("reply-misdirected", "the reply to a private-message request is not addressed to the sender with the request's id")
			}
		case tranType(t) == 104 && u16(from) == actor.id && bytes.Equal(d, msg) && bytes.Equal(o, []byte{0, 1}):
			g.msgs++
		case tranType(t) == 104 && u16(from) == target.id && bytes.Equal(o, []byte{0, 2}):
			g.refusals++
		case tranType(t) == 104 && u16(from) == target.id && bytes.Equal(d, auto) && bytes.Equal(o, []byte{0, 1}):
			g.autos++
		default:
			g.other++
		}
	}
	count := func(cl *c13cl) got {
		if g := per[cl]; g != nil {
			return *g
		}
		return got{}
	}
	fail := func(key, what string) {
		h.c.Note("outputs", clip(outsStr(outs)))
		h.c.Note("target_refuses", refuse)
		h.c.Note("target_auto_reply", hx(auto))
		h.c.Violation(key, what)
	}
	for cl := range per {
		if cl != actor && cl != target {
			fail("private-message-bystander", fmt.Sprintf("a private message from user %d to user %d produced a transaction for user %d", actor.id, targetID, cl.id))
			return
		}
	}
	a, t := count(actor), count(target)
	if target == actor && !stale {
		// a message to oneself: sender and target are one inbox, the parts cannot be told apart by recipient;
		// the model comparison covers it, here only the reply count is judged
		if may && a.replies != 1 {
			fail("reply-count", fmt.Sprintf("a private-message request got %d replies", a.replies))
		}
		return
	}
	switch {
	case !may:
		if len(outs) != 1 || a.replies != 1 || outs[0].ErrorCode != [4]byte{0, 0, 0, 1} {
			fail("private-message-denied", "a private message from a user without the privilege produced something else than one error reply")
		}
		return
	case stale:
		if len(outs) != 0 {
			fail("private-message-to-nobody", "a private message addressed to an id nobody holds produced output")
		}
		return
	}
	// what the sender and the target must have got, from the target's own current settings
	wantAuto := 0
	if len(auto) > 0 {
		wantAuto = 1
	}
	wantRefusal, wantMsg := 0, 1
	if refuse {
		wantRefusal, wantMsg = 1, 0
	}
	switch {
	case refuse && a.refusals != 1:
		fail("refuse-flag-not-honoured", fmt.Sprintf("user %d refuses private messages: the sender must get the refusal (got %d)", target.id, a.refusals))
	case refuse && t.msgs != 0:
		fail("refuse-flag-not-honoured", fmt.Sprintf("user %d refuses private messages but received %d message(s)", target.id, t.msgs))
	case !refuse && a.refusals != 0:
		fail("refuse-flag-not-honoured", fmt.Sprintf("user %d does not refuse private messages (its last options cleared the flag) but the sender got a refusal", target.id))
	case t.msgs != wantMsg:
		fail("private-message-delivery", fmt.Sprintf("the target of a private message received it %d times, expected %d", t.msgs, wantMsg))
	case t.autos != 0:
		fail("automatic-reply", "the automatic reply was sent to the target instead of the sender")
	case a.autos != wantAuto:
		fail("automatic-reply", fmt.Sprintf("the target's automatic reply must go to the sender exactly when set: sender got %d, expected %d", a.autos, wantAuto))
	case a.other != 0 && wantAuto == 0:
		fail("automatic-reply", fmt.Sprintf("user %d has no automatic reply set (switched off, or never on) but the sender received an extra server message (a stale automatic reply?)", target.id))
	case a.other != 0 || a.msgs != 0:
		fail("private-message-extra", "the sender of a private message received a transaction that is neither the refusal, the target's automatic reply nor the reply")
	case t.refusals+t.replies+t.other != 0:
		fail("private-message-delivery", "the target of a private message received something besides the message")
	case a.replies != 1:
		fail("reply-count", fmt.Sprintf("a private-message request got %d replies", a.replies))
	case a.refusals != wantRefusal:
		fail("refuse-flag-not-honoured", "refusal count differs from the target's setting")
	}
}

func (h *c13run) implState() string {
	lv := h.live()
	var es []string
	for _, cc := range h.ts.Srv.ClientMgr.List() {
		fl := int(binary.BigEndian.Uint16(cc.Flags[:]))
		es = append(es, rEntry{id: int(binary.BigEndian.Uint16(cc.ID[:])), name: string(cc.UserName), icon: string(normIcon(cc.Icon)), flags: fl}.String())
	}
	var vs []string
	sort.Slice(lv, func(i, j int) bool { return lv[i].id < lv[j].id })
	for _, c := range lv {
		m, ok := foldRoster(c.inbox)
		if !ok {
			vs = append(vs, fmt.Sprintf("%d>none", c.id))
		} else {
			vs = append(vs, fmt.Sprintf("%d>%s", c.id, rosterStr(m)))
		}
	}
	ctr := h.ts.Srv.ClientMgr.(*hotline.MemClientMgr).VerifNextClientID()
	list := "."
	if len(es) > 0 {
		list = strings.Join(es, ",")
	}
	return fmt.Sprintf("ctr=%d list=%s views=%s", ctr, list, strings.Join(vs, ";"))
}

func runPresenceHistory(c *Case) {
	r := c.R
	ts, err := newTS(TSOpt{Direct: true, Accounts: c13Accounts()})
	if err != nil {
		panic(err)
	}
	defer ts.Close()
	h := &c13run{c: c, ts: ts, req: 1000, ops: map[string]int{}, loop: true}
	defer h.endLoops()
	n := 2 + r.Intn(4)
	for i := 0; i < n && !c.failed; i++ {
		h.connect(r)
	}
	steps := 25 + r.Intn(30)
	for i := 0; i < steps && !c.failed; i++ {
		h.step(r)
		h.idsCheck("after an event")
		if r.Chance(25) {
			h.convergenceCheck(fmt.Sprintf("after event %d", len(h.evs)))
			h.soundCheck(fmt.Sprintf("after event %d", len(h.evs)))
		}
	}
	// settle: every half-way login completes, then every client must have converged
	for _, cl := range h.live() {
		if !cl.agreed && !c.failed {
			h.agree(r, cl)
		}
	}
	if !c.failed {
		h.convergenceCheck("at the end of the history")
	}
	line := "c13runx " + strings.Join(h.evs, " ")
	c.Note("history", clip(strings.Join(h.evs, " ")))
	ans := c.O.Ask(line)
	implLine := fmt.Sprintf("%d ", len(h.evs)) + strings.Join(h.impl, " | ") + " || " + h.implState()
	if ans != implLine {
		a := strings.Split(ans, " | ")
		b := strings.Split(implLine, " | ")
		for i := 0; i < len(a) && i < len(b); i++ {
			if a[i] != b[i] {
				c.Note("first_diff_event", i)
				if i < len(h.evs) {
					c.Note("event", clip(h.evs[i]))
				}
				c.Note("model_event_out", clip(a[i]))
				c.Note("impl_event_out", clip(b[i]))
				break
			}
		}
	}
	c.Corr("presence-history", implLine, ans, false)
	c.Corr("notes-decode", "agree", c.O.Ask("c13notesx "+strings.Join(h.evs, " ")), false)
	for k, v := range h.ops {
		for i := 0; i < v; i++ {
			c.Dist("op/" + k)
		}
	}
	if h.checks > 0 && h.ops["agreed"] >= 2 && (h.ops["set-info"]+h.ops["set-user"]+h.ops["disconnect"]) > 0 {
		c.Nontrivial(line)
	}
	c.Dist(fmt.Sprintf("convergence-checks/%d", min(h.checks/5*5, 30)))
	c.Sample(map[string]any{"family": "presence-history", "clients": len(h.clients), "events": len(h.evs), "roster_checks": h.checks, "ops": h.ops})
}

// ---------------------------------------------------------------- id allocation across the wrap

type wrapUser struct {
	cc *hotline.ClientConn
	id int
}

// wrapStep adds one client to mgr and judges the id it got; live is the harness's own view.
func wrapAdd(c *Case, mgr *hotline.MemClientMgr, live map[int]*wrapUser) *wrapUser {
	var ids []string
	for id := range live {
		ids = append(ids, fmt.Sprint(id))
	}
	sort.Strings(ids)
	ctr := mgr.VerifNextClientID()
	cc := &hotline.ClientConn{}
	done := make(chan struct{})
	go func() { mgr.Add(cc); close(done) }()
	select {
	case <-done:
	case <-time.After(longWait):
		c.Violation("id-allocation-hangs", "MemClientMgr.Add did not return although a user id is free")
		return nil
	}
	id := int(binary.BigEndian.Uint16(cc.ID[:]))
	c.Note("counter_before", ctr)
	c.Note("live_ids", clip(strings.Join(ids, " ")))
	c.Note("new_id", id)
	if id == 0 {
		c.Violation("user-id-zero", fmt.Sprintf("connection number %d got user id 0", uint64(ctr)+1))
	}
	if old, dup := live[id]; dup {
		if mgr.Get(cc.ID) != old.cc {
			c.Violation("live-user-replaced", fmt.Sprintf("a new connection got user id %d while another connected user holds it, and replaced that user in the client table", id))
		} else {
			c.Violation("user-id-shared", fmt.Sprintf("a new connection got user id %d while another connected user holds it", id))
		}
		return nil
	}
	u := &wrapUser{cc: cc, id: id}
	live[id] = u
	// the table lists every live user exactly once, sorted, and still maps every id to its holder
	l := mgr.List()
	if len(l) != len(live) {
		c.Violation("client-table-size", fmt.Sprintf("%d users are connected but the client table lists %d", len(live), len(l)))
	}
	prev := -1
	for _, x := range l {
		xid := int(binary.BigEndian.Uint16(x.ID[:]))
		if xid <= prev {
			c.Violation("user-id-shared", "the user list is not strictly increasing in user id")
		}
		prev = xid
		if w, ok := live[xid]; !ok || w.cc != x {
			c.Violation("live-user-replaced", fmt.Sprintf("user id %d does not map to the connection that was given it", xid))
		}
	}
	model := c.O.Ask(fmt.Sprintf("c13alloc %d %s", ctr, strings.Join(ids, " ")))
	c.Corr("allocator", fmt.Sprintf("%d %d", mgr.VerifNextClientID(), id), model, false)
	return u
}

func runIDWrap(c *Case) {
	r := c.R
	mgr := hotline.NewMemClientMgr()
	live := map[int]*wrapUser{}
	// long-lived users at the residues the wrap will hit
	residues := []int{1, 2, 3, 65535, 65534, 65533, 7, 100}
	for _, res := range residues {
		if r.Chance(70) {
			mgr.VerifSetNextClientID(uint32(res - 1))
			wrapAdd(c, mgr, live)
		}
	}
	// position the counter shortly before a wrap: of the 16-bit id, or of the 32-bit counter itself
	start := uint32(r.Pick(65520, 65530, 65534, 65535, 131060, 4294967280, 4294967294, 4294967295, 65536*3-4))
	mgr.VerifSetNextClientID(start)
	steps := 30 + r.Intn(60)
	for i := 0; i < steps && !c.failed; i++ {
		if r.Chance(65) || len(live) < 3 {
			wrapAdd(c, mgr, live)
		} else {
			// disconnect a random user (sometimes one of the long-lived ones)
			var ids []int
			for id := range live {
				ids = append(ids, id)
			}
			sort.Ints(ids)
			id := ids[r.Intn(len(ids))]
			mgr.Delete(live[id].cc.ID)
			delete(live, id)
			if mgr.Get(hotline.ClientID(be16(id))) != nil {
				c.Violation("disconnect-keeps-entry", "Delete left the user in the client table")
			}
		}
		if r.Chance(6) {
			mgr.VerifSetNextClientID(uint32(r.Pick(65533, 65535, 4294967293, 131070)))
		}
	}
	c.Nontrivial(fmt.Sprintf("wrap start=%d steps=%d live=%d", start, steps, len(live)))
	c.Dist(fmt.Sprintf("wrap/start=%d", start))
}

// runLongWrap is one long history (2·10^5 add/delete) that crosses 65 535 three times with users alive at the wrap.
func runLongWrap(c *Case) {
	r := c.R
	mgr := hotline.NewMemClientMgr()
	live := map[int]*wrapUser{}
	var order []int
	n := 200000
	if c.X.Tier == "thorough" {
		n = 400000
	}
	for i := 0; i < n && !c.failed; i++ {
		if i > 0 && i%50000 == 0 {
			// jump to shortly before the next wrap of the 16-bit id (once: of the 32-bit counter), users stay connected
			ctr := mgr.VerifNextClientID()
			next := ((ctr>>16)+1)<<16 - 300
			if i == 100000 {
				next = 4294967295 - 300
			}
			mgr.VerifSetNextClientID(next)
		}
		if len(live) < 40 && (r.Chance(52) || len(live) < 5) {
			if u := wrapAdd(c, mgr, live); u != nil {
				order = append(order, u.id)
			}
		} else {
			// mostly the oldest leaves, sometimes a random one: some users survive several wraps
			k := 0
			if r.Chance(30) {
				k = r.Intn(len(order))
			}
			id := order[k]
			order = append(order[:k], order[k+1:]...)
			mgr.Delete(live[id].cc.ID)
			delete(live, id)
		}
	}
	c.Note("final_counter", mgr.VerifNextClientID())
	c.Nontrivial(fmt.Sprintf("long %d", c.Seed))
	c.Dist("long-wrap/run")
}

// ---------------------------------------------------------------- targeted requests reach only the holder

// runTargeted: a user disconnects, its id is reissued to a newcomer after the wrap; instant message, invitation,
// info request and disconnect addressed to that id concern the newcomer only.
func runTargeted(c *Case) {
	r := c.R
	ts, err := newTS(TSOpt{Direct: true, Accounts: c13Accounts()})
	if err != nil {
		panic(err)
	}
	defer ts.Close()
	mgr := ts.Srv.ClientMgr.(*hotline.MemClientMgr)
	h := &c13run{c: c, ts: ts, req: 1000, ops: map[string]int{}}
	mk := func(acct int, name string) *c13cl {
		cc, nc := ts.DirectClient(c13Accts[acct].login, []byte(name), fmt.Sprintf("10.3.0.%d:4000", len(h.clients)+1))
		cl := &c13cl{cc: cc, nc: nc, id: int(binary.BigEndian.Uint16(cc.ID[:])), acct: acct, live: true, agreed: true}
		h.clients = append(h.clients, cl)
		return cl
	}
	admin := mk(2, "admin")    // id 1
	old := mk(0, "old-holder") // id 2
	other := mk(1, "other")    // id 3
	// a private chat with the old holder and `other` in it: after the wrap the chat's traffic must follow the
	// CONNECTION that joined, not whoever holds the id now
	var chat []byte
	for _, t := range func() []hotline.Transaction {
		o, _ := h.call(admin, mkTran(hotline.TranInviteNewChat, 901, fld(hotline.FieldUserID, old.cc.ID[:])))
		return o
	}() {
		if t.IsReply == 1 {
			chat, _ = fieldOf(&t, 114)
		}
	}
	if len(chat) == 4 {
		h.call(old, mkTran(hotline.TranJoinChat, 902, fld(hotline.FieldChatID, chat)))
		h.call(other, mkTran(hotline.TranJoinChat, 903, fld(hotline.FieldChatID, chat)))
	}
	// bystanders at ids the wrap passes
	mgr.VerifSetNextClientID(uint32(r.Pick(65533, 65534, 4294967294)))
	by := mk(0, "bystander")
	// the old holder leaves; the counter wraps; the newcomer must not get an id still in use
	keepOld := r.Chance(40)
	if !keepOld {
		disconnectSync(ts, old.cc)
		old.live = false
	}
	mgr.VerifSetNextClientID(uint32(r.Pick(65535, 65536, 65536*2, 4294967295)))
	neu := mk(5, "newcomer")
	h.idsCheck("after the wrap")
	if neu.id == 0 || (keepOld && neu.id == old.id) || neu.id == admin.id || neu.id == by.id {
		c.Violation("user-id-shared", fmt.Sprintf("the newcomer got user id %d", neu.id))
		return
	}
	// chat traffic after the wrap: subject change (119) and a join notice (117) reach the members' connections only
	if len(chat) == 4 {
		chatMembers := map[*hotline.ClientConn]bool{admin.cc: true, other.cc: true}
		if keepOld {
			chatMembers[old.cc] = true
		}
		judgeChat := func(what string, outs []hotline.Transaction, ty int) {
			got := map[*hotline.ClientConn]int{}
			for i := range outs {
				if outs[i].IsReply == 0 && tranType(&outs[i]) == ty {
					if cc := ts.Srv.ClientMgr.Get(outs[i].ClientID); cc != nil {
						got[cc]++
					}
				}
			}
			for cc, n := range got {
				if !chatMembers[cc] {
					c.Note("outputs", clip(outsStr(outs)))
					c.Violation("addressed-to-wrong-user", fmt.Sprintf("%s of a private chat reached (%d×) user %q (id %d), who never joined it: a member that disconnected held that id before the id counter wrapped", what, n, cc.UserName, binary.BigEndian.Uint16(cc.ID[:])))
					return
				}
			}
			for cc := range chatMembers {
				if got[cc] != 1 {
					c.Violation("chat-member-missed", fmt.Sprintf("%s of a private chat reached member %q %d times, expected once", what, cc.UserName, got[cc]))
					return
				}
			}
		}
		if outs, ok := h.call(other, mkTran(hotline.TranSetChatSubject, 910, fld(hotline.FieldChatID, chat), fld(hotline.FieldChatSubject, []byte("after the wrap")))); ok {
			judgeChat("a subject change", outs, 119)
		}
		if outs, ok := h.call(by, mkTran(hotline.TranJoinChat, 911, fld(hotline.FieldChatID, chat))); ok && !c.failed {
			judgeChat("a join notice", outs, 117)
		}
		if c.failed {
			return
		}
	}
	target := neu
	if keepOld && r.Bool() {
		target = old
	}
	// instant message
	h.req++
	msg := textBytes(r, 12)
	outs, ok := h.call(admin, mkTran(hotline.TranSendInstantMsg, h.req, fld(hotline.FieldData, msg), fld(hotline.FieldUserID, be16(target.id)), fld(hotline.FieldOptions, []byte{0, 1})))
	if !ok {
		return
	}
	for i := range outs {
		t := &outs[i]
		if t.IsReply == 1 {
			continue
		}
		cc := ts.Srv.ClientMgr.Get(t.ClientID)
		if cc != nil && cc != target.cc && cc != admin.cc {
			c.Violation("addressed-to-wrong-user", fmt.Sprintf("a private message addressed to user id %d reached another connection (id %d)", target.id, binary.BigEndian.Uint16(cc.ID[:])))
		}
	}
	n := 0
	for i := range outs {
		if outs[i].IsReply == 0 && ts.Srv.ClientMgr.Get(outs[i].ClientID) == target.cc {
			n++
		}
	}
	if n != 1 {
		c.Violation("private-message-delivery", fmt.Sprintf("a private message addressed to user id %d reached its holder %d times", target.id, n))
	}
	// invitation to a new chat
	h.req++
	outs, ok = h.call(admin, mkTran(hotline.TranInviteNewChat, h.req, fld(hotline.FieldUserID, be16(target.id))))
	if !ok {
		return
	}
	n = 0
	for i := range outs {
		if tranType(&outs[i]) == 113 {
			cc := ts.Srv.ClientMgr.Get(outs[i].ClientID)
			if cc == target.cc {
				n++
			} else if cc != nil {
				c.Violation("addressed-to-wrong-user", "an invitation reached a connection other than the holder of the addressed id")
			}
		}
	}
	if n != 1 {
		c.Violation("invitation-delivery", fmt.Sprintf("an invitation addressed to user id %d reached its holder %d times", target.id, n))
	}
	// info request
	h.req++
	outs, ok = h.call(admin, mkTran(hotline.TranGetClientInfoText, h.req, fld(hotline.FieldUserID, be16(target.id))))
	if !ok {
		return
	}
	if len(outs) != 1 || outs[0].IsReply != 1 || outs[0].ErrorCode != [4]byte{} {
		c.Violation("client-info-failed", "an info request for a connected user did not produce one successful reply")
	} else {
		nm, _ := fieldOf(&outs[0], 102)
		txt, _ := fieldOf(&outs[0], 101)
		if !bytes.Equal(nm, target.cc.UserName) || !bytes.Contains(txt, []byte("Account:    "+target.cc.Account.Login+"\r")) || !bytes.Contains(txt, []byte("Address:    "+target.cc.RemoteAddr+"\r")) {
			c.Note("reply", clip(string(txt)))
			c.Violation("addressed-to-wrong-user", "the info reply for a user id does not describe the connection holding that id")
		}
	}
	// disconnect: only the holder's connection is closed, only the holder leaves the table
	h.req++
	victim := target
	if victim.acct == 5 {
		// account g5 cannot be disconnected: the request must be refused and nobody leaves
		outs, ok = h.call(admin, mkTran(hotline.TranDisconnectUser, h.req, fld(hotline.FieldUserID, be16(victim.id))))
		if !ok {
			return
		}
		if len(outs) != 1 || outs[0].ErrorCode != [4]byte{0, 0, 0, 1} {
			c.Violation("protected-user-disconnected", "disconnecting a user who cannot be disconnected did not produce an error reply")
		}
		victim = by
		h.req++
	}
	outs, ok = h.call(admin, mkTran(hotline.TranDisconnectUser, h.req, fld(hotline.FieldUserID, be16(victim.id))))
	if !ok {
		return
	}
	gone := waitFor(longWait, func() bool { return victim.nc.IsClosed() })
	syncOutbox(ts)
	if !gone {
		c.Violation("disconnect-not-performed", "the addressed user's connection was not closed in time")
	}
	for _, cl := range h.clients {
		if cl != victim && cl.live && (cl.nc.IsClosed() || ts.Srv.ClientMgr.Get(cl.cc.ID) != cl.cc) {
			c.Violation("addressed-to-wrong-user", fmt.Sprintf("disconnecting user id %d closed or removed another connection (id %d)", victim.id, cl.id))
		}
	}
	if ts.Srv.ClientMgr.Get(victim.cc.ID) == victim.cc {
		c.Violation("disconnect-keeps-entry", "the disconnected user is still in the client table")
	}
	c.Nontrivial(fmt.Sprintf("targeted keep=%v new=%d target=%d", keepOld, neu.id, target.id))
	c.Dist(fmt.Sprintf("targeted/keepOld=%v", keepOld))
}

// ---------------------------------------------------------------- a login racing a disconnect

// hookMgr wraps the server's client manager (an interface field): the first List() after arming runs a hook right
// after the list has been taken — the harness's way of placing another client's login + list fetch between two
// steps of somebody else's Disconnect.
type hookMgr struct {
	hotline.ClientManager
	mu     sync.Mutex
	onList func()
}

func (m *hookMgr) List() []*hotline.ClientConn {
	l := m.ClientManager.List()
	m.mu.Lock()
	f := m.onList
	m.onList = nil
	m.mu.Unlock()
	if f != nil {
		f()
	}
	return l
}

// runDisconnectRace forces the one schedule a sequential history cannot show: while user X disconnects, user C logs in
// and fetches the user list exactly when Disconnect lists the table to pick the audience of its user-left notice.
// Whatever C saw, its roster must converge: either it never saw X (X already removed) or it is told that X left.
func runDisconnectRace(c *Case) {
	r := c.R
	ts, err := newTS(TSOpt{Direct: true, Accounts: c13Accounts()})
	if err != nil {
		panic(err)
	}
	defer ts.Close()
	hm := &hookMgr{ClientManager: ts.Srv.ClientMgr}
	ts.Srv.ClientMgr = hm
	h := &c13run{c: c, ts: ts, req: 1000, ops: map[string]int{}}
	n := 2 + r.Intn(3)
	for i := 0; i < n; i++ {
		cl := h.connect(r)
		h.agree(r, cl)
		if !cl.fetched {
			h.fetch(cl)
		}
	}
	x := h.clients[r.Intn(len(h.clients))]
	var racer *c13cl
	hm.mu.Lock()
	hm.onList = func() {
		racer = h.connect(r)
		h.agree(r, racer)
		if !racer.fetched {
			h.fetch(racer)
		}
	}
	hm.mu.Unlock()
	x.live = false // from the harness's point of view X is going: nothing is owed to it any more
	outs := disconnectSync(ts, x.cc)
	h.record(fmt.Sprintf("D %d", x.id), outs)
	if racer == nil {
		c.Disagree("disconnect-race-setup", "Disconnect did not list the client table (the forced schedule could not be placed)")
		return
	}
	c.Note("leaver", x.id)
	c.Note("racing_login", racer.id)
	c.Note("history", clip(strings.Join(h.evs, " ")))
	// a little more traffic, then everybody — the racing client included — must hold the server's list
	if r.Chance(50) && !c.failed {
		h.step(r)
	}
	for _, cl := range h.live() {
		if !cl.agreed && !c.failed {
			h.agree(r, cl)
		}
	}
	if !c.failed {
		h.convergenceCheck("after a login + list fetch placed inside another user's Disconnect")
	}
	h.idsCheck("after the race")
	c.Nontrivial(fmt.Sprintf("race n=%d x=%d %x", n, x.id, c.Seed))
	c.Dist("disconnect-race/run")
}

// ---------------------------------------------------------------- switching the automatic reply / refusal off again

// runOptionSwitch: a user switches automatic response (and refuse-messages) on and later off again with
// set-client-user-info; a private message from somebody else must follow the *current* setting.
func runOptionSwitch(c *Case) {
	r := c.R
	ts, err := newTS(TSOpt{Direct: true, Accounts: c13Accounts()})
	if err != nil {
		panic(err)
	}
	defer ts.Close()
	h := &c13run{c: c, ts: ts, req: 1000, ops: map[string]int{}}
	x := h.connect(r)
	y := h.connect(r)
	for y.acct != 0 && y.acct != 1 && y.acct != 2 && y.acct != 5 { // the sender must be allowed to send private messages
		outs := disconnectSync(ts, y.cc)
		y.live = false
		h.record(fmt.Sprintf("D %d", y.id), outs)
		y = h.connect(r)
	}
	h.agree(r, x)
	h.agree(r, y)
	setInfo := func(cl *c13cl, opts int, withOpts bool, auto []byte) {
		h.req++
		fields := []hotline.Field{fld(hotline.FieldUserName, []byte("x")), fld(hotline.FieldUserIconID, be16(5))}
		optsTok := "none"
		if withOpts {
			fields = append(fields, fld(hotline.FieldOptions, be16(opts)))
			optsTok = fmt.Sprint(opts)
		}
		autoPresent := withOpts && opts&4 != 0
		if autoPresent {
			fields = append(fields, fld(hotline.FieldAutomaticResponse, auto))
		}
		outs, ok := h.call(cl, mkTran(hotline.TranSetClientUserInfo, h.req, fields...))
		if !ok {
			return
		}
		h.record(fmt.Sprintf("U %d %d %s %s %s %s", cl.id, h.req, hx([]byte("x")), hx(be16(5)), optsTok, optTok(auto, autoPresent)), outs)
		if withOpts {
			cl.refuseSpec = opts&1 != 0
			if opts&4 != 0 {
				cl.autoSpec = append([]byte{}, auto...)
			} else {
				cl.autoSpec = nil
			}
		}
	}
	// on (with text), optionally changed, then off in one of several ways, sometimes on again
	setInfo(x, 4|r.Intn(4), true, textBytes(r, 1+r.Intn(20)))
	if r.Chance(30) {
		setInfo(x, 4|r.Intn(4), true, textBytes(r, 1+r.Intn(20)))
	}
	setInfo(x, r.Intn(4), true, nil) // bit 2 cleared: automatic response off
	if r.Chance(25) {
		setInfo(x, 0, false, nil) // a request without options changes nothing
	}
	if r.Chance(20) {
		setInfo(x, 4, true, textBytes(r, 1+r.Intn(10)))
	}
	h.instantMessageTo(r, y, x)
	h.instantMessageTo(r, x, y)
	ans := c.O.Ask("c13run " + strings.Join(h.evs, " "))
	implLine := fmt.Sprintf("%d ", len(h.evs)) + strings.Join(h.impl, " | ") + " || " + h.implState()
	c.Note("history", clip(strings.Join(h.evs, " ")))
	c.Corr("option-switch-history", implLine, ans, false)
	c.Nontrivial("switch " + strings.Join(h.evs, " "))
	c.Dist("option-switch/run")
}

// ---------------------------------------------------------------- presence over real connections

type wireUser struct {
	wc      *WireClient
	id      int
	live    bool
	agreed  bool
	fetched bool
	want    int // presence notifications (301 / 302) this connection must have received so far
	nreq    uint32
}

func (u *wireUser) presenceInbox() (inbox []hotline.Transaction, notes int, err error) {
	_, trans, rest, e := u.wc.Received()
	if e != nil || len(rest) != 0 {
		return nil, 0, fmt.Errorf("stream not framed: %v", e)
	}
	for i := range trans {
		t := trans[i]
		if t.IsReply == 0 && (tranType(&t) == 301 || tranType(&t) == 302) {
			notes++
			inbox = append(inbox, t)
		} else if isUserList(&t) {
			inbox = append(inbox, t)
		}
	}
	return inbox, notes, nil
}

// runPresenceWire drives both login flows, Agreed, set-client-user-info, fetch and disconnect through the real
// handleNewConnection / connection loop / processOutbox; every step waits until the notifications it must cause have
// arrived (so the history stays sequential), then rosters are folded from what each connection really received.
func runPresenceWire(c *Case) {
	r := c.R
	ts, err := newTS(TSOpt{Accounts: c13Accounts()})
	if err != nil {
		panic(err)
	}
	defer ts.Close()
	var users []*wireUser
	var evs []string
	live := func() []*wireUser {
		var l []*wireUser
		for _, u := range users {
			if u.live {
				l = append(l, u)
			}
		}
		return l
	}
	settle := func(what string) bool {
		ok := waitFor(longWait, func() bool {
			for _, u := range live() {
				_, n, err := u.presenceInbox()
				if err != nil || n < u.want {
					return false
				}
			}
			return true
		})
		if !ok {
			for _, u := range live() {
				_, n, err := u.presenceInbox()
				if err != nil {
					c.Violation("interleaved-transactions", "the stream written to a client is not a sequence of whole transactions")
					return false
				}
				if n < u.want {
					c.Note("history", clip(strings.Join(evs, " ")))
					c.Violation("notification-missing", fmt.Sprintf("after %s user %d has received %d presence notifications, %d are due (waited two minutes)", what, u.id, n, u.want))
					return false
				}
			}
		}
		return true
	}
	barrier := func(u *wireUser) {
		u.nreq++
		id := 100 + u.nreq
		u.wc.Conn.Feed(encTran(mkTran(hotline.TranKeepAlive, id)))
		u.wc.ReplyTo(id, longWait)
	}
	login := func() bool {
		a := r.Intn(len(c13Accts))
		named := r.Chance(45)
		icon := be16(r.Intn(3000))
		var extra []hotline.Field
		iconPresent := r.Chance(80)
		if iconPresent {
			extra = append(extra, fld(hotline.FieldUserIconID, icon))
		} else {
			icon = []byte{0, 0}
		}
		name := textBytes(r, r.Pick(0, 1, 5, 13, 20))
		if named {
			extra = append(extra, fld(hotline.FieldUserName, name))
		}
		wc, err := loginWire(ts, fmt.Sprintf("10.6.0.%d:4000", len(users)+1), c13Accts[a].login, "", extra...)
		if err != nil {
			c.Note("login_error", err.Error())
			c.Disagree("wire-login", "a valid login over an in-memory connection did not succeed")
			return false
		}
		u := &wireUser{wc: wc, live: true}
		// the login reply is sent before handleNewConnection announces the user: a keep-alive is only read once the
		// whole login sequence has been handed to the outbox, so wait for its reply before the history goes on
		barrier(u)
		var cc *hotline.ClientConn
		for _, x := range ts.Srv.ClientMgr.List() {
			if x.Connection == wc.Conn {
				cc = x
			}
		}
		if cc == nil {
			c.Violation("login-not-registered", "a successful login is not in the client table")
			return false
		}
		u.id = int(binary.BigEndian.Uint16(cc.ID[:]))
		acct := cc.Account
		if named {
			evs = append(evs, fmt.Sprintf("LN %s %s %s %s %s", hx([]byte(acct.Login)), hx([]byte(acct.Name)), hx(acct.Access[:]), hx(name), hx(icon)))
			// the name the request determines (field for an any-name account, else the account's Name): when it is not
			// blank the login is complete with its reply and everybody else is told at once; a blank one leaves the
			// login half-way until an Agreed (the server cannot tell it from a 1.5+ login)
			spec := []byte(acct.Name)
			if acct.Access.IsSet(hotline.AccessAnyName) {
				spec = name
			}
			if len(spec) != 0 {
				u.agreed = true
				for _, o := range live() {
					o.want++
				}
			}
		} else {
			evs = append(evs, fmt.Sprintf("C %s %s %s %s", hx([]byte(acct.Login)), hx([]byte(acct.Name)), hx(acct.Access[:]), hx(icon)))
		}
		users = append(users, u)
		return settle("a login")
	}
	req := uint32(1000)
	n := 2 + r.Intn(3)
	for i := 0; i < n; i++ {
		if !login() {
			return
		}
	}
	steps := 10 + r.Intn(12)
	for s := 0; s < steps && !c.failed; s++ {
		lv := live()
		if len(lv) == 0 {
			break
		}
		u := lv[r.Intn(len(lv))]
		req++
		op := r.Intn(100)
		switch {
		case op < 12 && len(users) < 7:
			if !login() {
				return
			}
		case op < 40:
			var h *wireUser
			for _, x := range lv {
				if !x.agreed {
					h = x
				}
			}
			if h == nil {
				continue
			}
			name := textBytes(r, r.Pick(0, 1, 6, 14))
			icon := be16(r.Intn(3000))
			opts := r.Intn(8)
			auto := textBytes(r, 4)
			fields := []hotline.Field{fld(hotline.FieldUserName, name), fld(hotline.FieldUserIconID, icon), fld(hotline.FieldOptions, be16(opts))}
			if opts&4 != 0 {
				fields = append(fields, fld(hotline.FieldAutomaticResponse, auto))
			}
			h.wc.Conn.Feed(encTran(mkTran(hotline.TranAgreed, req, fields...)))
			if _, ok := h.wc.ReplyTo(req, longWait); !ok {
				c.Violation("agreed-no-reply", "Agreed got no reply in time")
				return
			}
			h.agreed = true
			evs = append(evs, fmt.Sprintf("A %d %d %s %s %d %s", h.id, req, hx(name), hx(icon), opts, optTok(auto, opts&4 != 0)))
			for _, o := range lv {
				if o != h {
					o.want++
				}
			}
			if !settle("an Agreed") {
				return
			}
		case op < 55:
			if !u.agreed {
				continue
			}
			u.wc.Conn.Feed(encTran(mkTran(hotline.TranGetUserNameList, req)))
			if _, ok := u.wc.ReplyTo(req, longWait); !ok {
				c.Violation("user-list-failed", "a user-list request got no reply in time")
				return
			}
			u.fetched = true
			evs = append(evs, fmt.Sprintf("F %d %d", u.id, req))
		case op < 80:
			if !u.agreed {
				continue
			}
			name := textBytes(r, r.Pick(0, 3, 9, 30))
			icon := be16(r.Intn(3000))
			if r.Chance(25) {
				icon = append([]byte{0, 0}, icon...)
			}
			fields := []hotline.Field{fld(hotline.FieldUserName, name), fld(hotline.FieldUserIconID, icon)}
			optsTok := "none"
			if r.Chance(60) {
				o := r.Intn(4)
				fields = append(fields, fld(hotline.FieldOptions, be16(o)))
				optsTok = fmt.Sprint(o)
			}
			u.wc.Conn.Feed(encTran(mkTran(hotline.TranSetClientUserInfo, req, fields...)))
			barrier(u)
			evs = append(evs, fmt.Sprintf("U %d %d %s %s %s none", u.id, req, hx(name), hx(icon), optsTok))
			for _, o := range lv {
				o.want++
			}
			if !settle("a set-client-user-info") {
				return
			}
		default:
			if len(lv) < 3 {
				continue
			}
			// the client goes away: the connection handler's deferred Disconnect must tell everybody else
			u.wc.Conn.EOF()
			if _, done := u.wc.WaitDone(longWait); !done {
				c.Violation("disconnect-not-performed", "the connection handler did not return after the client closed the connection")
				return
			}
			u.live = false
			evs = append(evs, fmt.Sprintf("D %d", u.id))
			for _, o := range live() {
				o.want++
			}
			if !settle("a disconnect") {
				return
			}
		}
	}
	// complete half-way logins, then every roster must have converged
	for _, h := range live() {
		if !h.agreed && !c.failed {
			req++
			h.wc.Conn.Feed(encTran(mkTran(hotline.TranAgreed, req, fld(hotline.FieldUserName, []byte("late")), fld(hotline.FieldUserIconID, be16(9)), fld(hotline.FieldOptions, be16(0)))))
			h.wc.ReplyTo(req, longWait)
			h.agreed = true
			evs = append(evs, fmt.Sprintf("A %d %d %s %s 0 none", h.id, req, hx([]byte("late")), hx(be16(9))))
			for _, o := range live() {
				if o != h {
					o.want++
				}
			}
			if !settle("the last Agreed") {
				return
			}
		}
	}
	time.Sleep(10 * time.Millisecond)
	var es []string
	for _, cc := range ts.Srv.ClientMgr.List() {
		es = append(es, rEntry{id: int(binary.BigEndian.Uint16(cc.ID[:])), name: string(cc.UserName), icon: string(normIcon(cc.Icon)), flags: int(binary.BigEndian.Uint16(cc.Flags[:]))}.String())
	}
	list := "."
	if len(es) > 0 {
		list = strings.Join(es, ",")
	}
	lv := live()
	sort.Slice(lv, func(i, j int) bool { return lv[i].id < lv[j].id })
	var vs []string
	checks := 0
	for _, u := range lv {
		inbox, n, err := u.presenceInbox()
		if err != nil {
			c.Violation("interleaved-transactions", "the stream written to a client is not a sequence of whole transactions")
			return
		}
		if n != u.want {
			c.Note("history", clip(strings.Join(evs, " ")))
			var got []string
			for i := range inbox {
				got = append(got, outStr(inbox[i]))
			}
			c.Note("presence_inbox", strings.Join(got, " ; "))
			var ws []string
			for _, w := range u.wc.Conn.Writes() {
				ws = append(ws, fmt.Sprint(len(w)))
			}
			c.Note("write_sizes", strings.Join(ws, " "))
			c.Violation("notification-count", fmt.Sprintf("user %d received %d presence notifications over its connection, exactly %d are due", u.id, n, u.want))
			return
		}
		m, ok := foldRoster(inbox)
		if !ok {
			vs = append(vs, fmt.Sprintf("%d>none", u.id))
			continue
		}
		vs = append(vs, fmt.Sprintf("%d>%s", u.id, rosterStr(m)))
		checks++
		if rosterStr(m) != list {
			c.Note("history", clip(strings.Join(evs, " ")))
			c.Note("folded_roster", clip(rosterStr(m)))
			c.Note("server_list", clip(list))
			c.Violation("roster-diverges", fmt.Sprintf("user %d (real connection): folding the notifications it received onto the list it fetched does not give the server's current user list", u.id))
			return
		}
	}
	ctr := ts.Srv.ClientMgr.(*hotline.MemClientMgr).VerifNextClientID()
	implState := fmt.Sprintf("ctr=%d list=%s views=%s", ctr, list, strings.Join(vs, ";"))
	ans := c.O.Ask("c13run " + strings.Join(evs, " "))
	model := ans
	if i := strings.Index(ans, " || "); i >= 0 {
		model = ans[i+4:]
	}
	c.Note("history", clip(strings.Join(evs, " ")))
	c.Corr("presence-wire-state", implState, model, false)
	for _, u := range live() {
		u.wc.Conn.EOF()
	}
	for _, u := range users {
		u.wc.WaitDone(longWait)
	}
	if checks > 0 {
		c.Nontrivial("wire " + strings.Join(evs, " "))
	}
	c.Dist("presence-wire/run")
}

func init() {
	props["C13"] = func(x *Ctx) {
		x.rule = "histories of connect (1.5+ login, name still empty) / agreed (name, 2- or 4-byte icon, options 0..7, automatic response) / set-client-user-info (with and without options) / set-user (privilege change by users with and without modify-user; toggles the admin flag) / disconnect / instant message (refuse flag, automatic reply, quote, ids nobody holds) / fetch by 2-8 clients over 6 accounts; per-connection inboxes are built by routing every transaction through the real client table; after events (25%) and at the end, when no login is half-way, every client's folded roster must equal a fresh user-list reply. id-wrap: users alive at ids 1,2,3,7,100,65533..65535 while the counter crosses 65 535 / 2^32 with adds and deletes; long-wrap: one 2·10^5-step add/delete history (<= 40 alive) crossing 65 535 three times; disconnect-race: another client's login + list fetch placed (client-manager wrapper) at the moment Disconnect lists the table for its user-left audience, then roster convergence of everybody; targeted: private-chat traffic / message / invitation / info / disconnect addressed to an id after the wrap; option-switch: automatic response / refuse-messages switched on, changed, off (and on) again with set-client-user-info, then a private message each way judged against the current settings; presence-wire: both login flows, Agreed, set-client-user-info, fetch and client-side close over real connections (handleNewConnection + processOutbox), rosters folded from the bytes each connection received. wave d: 45% of the logins of a presence history go through the real handleNewConnection over an in-memory connection and stay in the real connection loop (outbox collected by the harness; a keep-alive closes each batch), the login request carrying the user-name field absent / empty / non-empty on accounts with and without any-name and with an empty or non-empty account Name (announcement due iff the name the request determines is not blank); 8% of the steps are requests the handler cannot digest (set-client-user-info with an Options field of 0 or 1 bytes, Agreed with Options absent or short, a private message with a short user id), through the real loop or the real handleTransaction: user-left to everybody when the session ended, the new row to everybody else when it was kept, every roster right about everybody it lists in every state (never_wrong judged on the implementation), fold = fresh list when settled. wave e (teardown-faults): presence histories in which the server's end of every connection is wrapped so that Close succeeds / fails the first time / fails every time / fails when the peer is already gone, with users leaving by themselves, on an aborted request, kicked by an administrator (HandleDisconnectUser's own delayed Disconnect) and deleted while logged in (HandleDeleteUser); after every departure: user-left to everybody remaining exactly once, entry gone, every roster right, fold = fresh list; the model runs the same history with the observed close results as inputs (non-trivial = at least one failed Close and one roster comparison). non-trivial = history with >= 2 completed logins, a later change or departure and >= 1 roster comparison (presence); every wrap / targeted case; distinct = distinct event lists / parameters"
		x.assume = []string{
			"a client fetches its user list after its own login completed and sends Agreed once (the server does not echo a user's own Agreed back to it)",
			"roster comparison only when nothing is in flight and no login is half-way (DESIGN §7 C13 Reading); histories are sequential",
			"icon ids are 2-byte values, or 4-byte integers whose value fits 16 bits (a listed record has room for 2 bytes)",
			"fewer than 65 535 users connected at once (the allocator loop needs a free id)",
			"a login whose user-name field yields a blank name (empty field with any-name, or an account whose Name is empty) is treated as half-way until its Agreed, as the server does (docs/C13.md, observation)",
		}
		fams := []*Family{
			{Name: "presence-history", Quick: 1500, Thor: 30000, Run: runPresenceHistory},
			{Name: "id-wrap", Quick: 400, Thor: 10000, Run: runIDWrap},
			{Name: "long-wrap", Quick: 1, Thor: 8, Run: runLongWrap},
			{Name: "targeted", Quick: 48, Thor: 500, Run: runTargeted},
			{Name: "presence-wire", Quick: 16, Thor: 300, Run: runPresenceWire},
			{Name: "option-switch", Quick: 150, Thor: 4000, Run: runOptionSwitch},
			{Name: "disconnect-race", Quick: 150, Thor: 4000, Run: runDisconnectRace},
			{Name: "teardown-faults", Quick: 64, Thor: 400, Run: runTeardownFaults},
		}
		only := os.Getenv("VERIF_ONLY_FAMILY") // development aid: run a single family
		for _, f := range fams {
			if only == "" || only == f.Name {
				x.Add(f)
			}
		}
	}
}
