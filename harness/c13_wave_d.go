//go:build c13

package main

// C13, wave d — requests that fail half-way, and the login variants.
//
// (a) Looped clients.  Some clients of a presence history log in through the real handleNewConnection over an
//     in-memory connection; the goroutine stays in the real connection loop for the rest of the history, while the
//     server's outbox is still collected by the harness (direct mode), so everything the login / a request / the
//     deferred Disconnect put on the outbox is seen in order and without any timing assumption: a keep-alive fed
//     after a request is only read once the request has been handled, its reply therefore closes the batch.
//     The login request carries field 102 absent / present-but-empty / present-non-empty, on accounts with and
//     without any-name, with an empty or non-empty account Name, with and without a version field.
// (b) Malformed requests.  Set-client-user-info with an Options field of 0 or 1 bytes, Agreed with Options absent or
//     short (both handlers store name and icon BEFORE they decode the options), a private message whose user-id
//     field is short (panics before anything changed).  For a looped client the request goes through the real loop
//     (containment exactly as in production: the panic unwinds to handleNewConnection, whose deferred Disconnect
//     runs); for a directly registered client through the real handleTransaction, and the harness does what
//     handleNewConnection's `defer c.Disconnect()` does when the panic comes out (regenerated fact
//     `generated_disconnect_deferred`, `generated_recover_sites`).
//     Judges (no model involved): whatever the outcome, every roster a client holds stays right about everybody it
//     lists (soundCheck = `Presence.never_wrong` on the implementation) and, with no login half-way, equals a fresh
//     list; when the session ended everybody remaining got the user-left notice exactly once; when the server kept
//     the session and the user's listed (name, icon, flags) changed, everybody else must have been sent the change.

import (
	"bytes"
	"encoding/binary"
	"fmt"
	"io"
	"os"
	"sort"
	"sync"

	"github.com/jhalter/mobius/hotline"
)

const c13BarrierBase = 0x7f000000

// dontPanic prints the stack of every panic it recovers on standard output (fmt.Println).  A looped client's malformed
// request is such a panic by design; while one is being handled the process's standard output is pointed at
// /dev/null (reference-counted: cases run in parallel), so that the check's output stays readable.  The harness prints
// its own lines only after all families have finished.
var (
	quietMu   sync.Mutex
	quietN    int
	quietReal *os.File
	quietNull *os.File
)

func quietStdout() func() {
	quietMu.Lock()
	defer quietMu.Unlock()
	if quietNull == nil {
		quietNull, _ = os.OpenFile(os.DevNull, os.O_WRONLY, 0)
	}
	if quietNull == nil {
		return func() {}
	}
	if quietN == 0 {
		quietReal = os.Stdout
		os.Stdout = quietNull
	}
	quietN++
	return func() {
		quietMu.Lock()
		defer quietMu.Unlock()
		quietN--
		if quietN == 0 {
			os.Stdout = quietReal
		}
	}
}

func wireDone(wc *WireClient) bool {
	select {
	case e := <-wc.Done:
		wc.Done <- e
		return true
	default:
		return false
	}
}

// loopBatch feeds b (zero or more requests) followed by a keep-alive to a looped client and collects the outbox until
// the keep-alive's reply shows up (the loop has handled everything fed before it) or the connection handler has
// returned (then everything its deferred Disconnect queued is collected as well).  ended = the session is over.
func (h *c13run) loopBatch(cl *c13cl, b []byte) (outs []hotline.Transaction, ended bool) {
	h.barrier++
	id := uint32(c13BarrierBase) + h.barrier
	cl.wc.Conn.Feed(append(append([]byte{}, b...), encTran(mkTran(hotline.TranKeepAlive, id))...))
	var acc []hotline.Transaction
	found := -1
	ok := waitFor(longWait, func() bool {
		acc = append(acc, h.ts.TakeOutbox()...)
		for i := range acc {
			if acc[i].IsReply == 1 && tranID(&acc[i]) == id {
				found = i
				return true
			}
		}
		return wireDone(cl.wc)
	})
	if !ok {
		h.c.Disagree("loop-barrier", "a looped client's connection neither answered a keep-alive nor ended (waited two minutes)")
		return acc, false
	}
	acc = append(acc, syncOutbox(h.ts)...)
	if found < 0 {
		for i := range acc {
			if acc[i].IsReply == 1 && tranID(&acc[i]) == id {
				found = i
			}
		}
	}
	if found >= 0 {
		return append(acc[:found:found], acc[found+1:]...), false
	}
	return acc, true
}

func only301(ts []hotline.Transaction) []hotline.Transaction {
	var o []hotline.Transaction
	for _, t := range ts {
		if t.IsReply == 0 && (tranType(&t) == 301 || tranType(&t) == 302) {
			o = append(o, t)
		}
	}
	return o
}

// loginLoop logs a client in through the real handleNewConnection.
//
// What is due is decided from the REQUEST and the account (not from the server's state): a login that carries the
// user-name field is the 1.2.3 flow — such a client never sends Agreed, its login is complete with the login reply;
// its name is the field (any-name) or the account's Name; when that name is not blank everybody else must be told at
// once.  A blank name cannot be told from a 1.5+ login by the server (it looks at the resulting name): such a login
// stays half-way until an Agreed (recorded as an observation in docs/C13.md, not judged).
func (h *c13run) loginLoop(r *RNG) *c13cl {
	a := r.Intn(len(c13Accts))
	var extra []hotline.Field
	icon := []byte{0, 0}
	if r.Chance(75) {
		icon = be16(r.Intn(4000))
		extra = append(extra, fld(hotline.FieldUserIconID, icon))
	}
	nameMode := r.Pick(0, 0, 1, 1, 2, 2, 2) // 0 = field 102 absent, 1 = present and empty, 2 = present
	var name []byte
	switch nameMode {
	case 1:
		name = []byte{}
		extra = append(extra, fld(hotline.FieldUserName, name))
	case 2:
		name = textBytes(r, r.Pick(1, 1, 5, 13, 31))
		extra = append(extra, fld(hotline.FieldUserName, name))
	}
	if r.Chance(50) {
		extra = append(extra, fld(hotline.FieldVersion, []byte{0, 0xbe}))
	}
	addr := fmt.Sprintf("10.4.%d.%d:4000", len(h.clients)/200, len(h.clients)%200+1)
	var wc *WireClient
	var fc *faultConn
	if h.faults {
		wc, fc = connectFaulty(h.ts, addr, r.Intn(c13CloseModes)) // c13_wave_e.go
	} else {
		wc = h.ts.Connect(addr, nil)
	}
	cl := &c13cl{wc: wc, acct: a, live: true, fc: fc}
	wc.Conn.Feed(clientHandshake)
	outs, ended := h.loopBatch(cl, encTran(loginTran(1, c13Accts[a].login, "", extra...)))
	if h.c.failed {
		wc.Conn.EOF() // the case has already failed on something else: do not pile a second report on it
		return nil
	}
	if ended {
		h.c.Note("login", c13Accts[a].login)
		h.c.Violation("login-failed", "a valid login through handleNewConnection ended the connection")
		return nil
	}
	for _, x := range h.ts.Srv.ClientMgr.List() {
		if x.Connection == io.ReadWriteCloser(wc.Conn) || (fc != nil && x.Connection == io.ReadWriteCloser(fc)) {
			cl.cc = x
		}
	}
	if cl.cc == nil {
		h.c.Violation("login-not-registered", "a successful login is not in the client table")
		wc.Conn.EOF()
		return nil
	}
	cl.id = int(binary.BigEndian.Uint16(cl.cc.ID[:]))
	h.clients = append(h.clients, cl)
	acct := cl.cc.Account
	// the name the request asks for
	var spec []byte
	if nameMode != 0 {
		if acct.Access.IsSet(hotline.AccessAnyName) {
			spec = name
		} else {
			spec = []byte(acct.Name)
		}
	}
	notes := only301(outs)
	if nameMode == 0 {
		h.record(fmt.Sprintf("C %s %s %s %s", hx([]byte(acct.Login)), hx([]byte(acct.Name)), hx(acct.Access[:]), hx(icon)), notes)
	} else {
		h.record(fmt.Sprintf("LN %s %s %s %s %s", hx([]byte(acct.Login)), hx([]byte(acct.Name)), hx(acct.Access[:]), hx(name), hx(icon)), notes)
	}
	h.ops["login-through-loop"]++
	h.c.Dist(fmt.Sprintf("login/name-field=%d any-name=%v acct-name-blank=%v", nameMode, acct.Access.IsSet(hotline.AccessAnyName), acct.Name == ""))
	if len(spec) != 0 {
		// complete with the login reply: announced to everybody else, with the name the request asks for
		cl.agreed = true
		h.c.Note("login_request", fmt.Sprintf("account %s (any-name=%v, Name %q), field 102 %s, icon %s", acct.Login, acct.Access.IsSet(hotline.AccessAnyName), acct.Name, optTok(name, true), hx(icon)))
		h.othersNotified(cl, notes, false, "a login that carries the user name (complete with its login reply)")
		if !h.c.failed && !bytes.Equal(cl.cc.UserName, spec) {
			h.c.Note("listed_name", hx(cl.cc.UserName))
			h.c.Note("requested_name", hx(spec))
			h.c.Disagree("login-name", "the name the server keeps for a login differs from the name field / account name the request determines")
		}
		h.ops["login-announced"]++
	} else if len(notes) != 0 {
		// nothing is due; whatever was sent must still be a faithful notice (judged by the roster checks)
		h.ops["login-blank-announced"]++
	}
	return cl
}

// hangUp ends a client's session: a looped client closes its connection (the real loop returns, the deferred
// Disconnect runs), a directly registered one gets the Disconnect call itself.
func (h *c13run) hangUp(cl *c13cl) []hotline.Transaction {
	if cl.wc == nil {
		return disconnectSync(h.ts, cl.cc)
	}
	cl.wc.Conn.EOF()
	if _, done := cl.wc.WaitDone(longWait); !done {
		h.c.Violation("disconnect-not-performed", "the connection handler did not return after the client closed the connection")
	}
	return syncOutbox(h.ts)
}

// endLoops closes every looped connection still open and waits for its handler (before the server's directory goes).
func (h *c13run) endLoops() {
	for _, cl := range h.clients {
		if cl.wc != nil {
			cl.wc.Conn.EOF()
		}
	}
	for _, cl := range h.clients {
		if cl.wc != nil {
			cl.wc.WaitDone(longWait)
		}
	}
	syncOutbox(h.ts)
}

type presRow struct {
	name, icon string
	flags      int
}

func rowOf(cc *hotline.ClientConn) presRow {
	return presRow{string(cc.UserName), string(normIcon(cc.Icon)), int(binary.BigEndian.Uint16(cc.Flags[:]))}
}

// malformed sends one request its handler cannot digest.
func (h *c13run) malformed(r *RNG, actor *c13cl) {
	h.req++
	name := c13Name(r)
	icon := be16(r.Intn(4000))
	if r.Chance(20) {
		icon = append([]byte{0, 0}, icon...)
	}
	namePresent := !r.Chance(10)
	var fields []hotline.Field
	if namePresent {
		fields = append(fields, fld(hotline.FieldUserName, name))
	}
	fields = append(fields, fld(hotline.FieldUserIconID, icon))
	short := [][]byte{{}, {0}, {1}, {4}, {0xff}}[r.Intn(5)]
	var t hotline.Transaction
	var ev, what string
	switch {
	case !actor.agreed:
		// Agreed whose Options field is absent or shorter than two bytes
		if r.Chance(60) {
			fields = append(fields, fld(hotline.FieldOptions, short))
		}
		t = mkTran(hotline.TranAgreed, h.req, fields...)
		ev = fmt.Sprintf("AA %d %s %s", actor.id, optTok(name, namePresent), hx(icon))
		what = "an Agreed whose Options field is absent or shorter than two bytes"
	case actor.cc.Account.Access.IsSet(hotline.AccessSendPrivMsg) && r.Chance(25):
		// a private message whose user-id field is shorter than two bytes: nothing was changed before the panic
		fs := []hotline.Field{fld(hotline.FieldData, []byte("hi"))}
		if r.Bool() {
			fs = append(fs, fld(hotline.FieldUserID, []byte{byte(r.Intn(256))}))
		}
		t = mkTran(hotline.TranSendInstantMsg, h.req, fs...)
		ev = fmt.Sprintf("CR %d", actor.id)
		what = "a private message whose user-id field is absent or one byte long"
	default:
		fields = append(fields, fld(hotline.FieldOptions, short))
		if r.Chance(30) {
			fields = append(fields, fld(hotline.FieldAutomaticResponse, []byte("brb")))
		}
		t = mkTran(hotline.TranSetClientUserInfo, h.req, fields...)
		ev = fmt.Sprintf("UA %d %s %s", actor.id, optTok(name, namePresent), hx(icon))
		what = "a set-client-user-info whose Options field is shorter than two bytes"
	}
	before := rowOf(actor.cc)
	wasAway := actor.cc.Flags.IsSet(hotline.UserFlagAway)
	var outs []hotline.Transaction
	ended := false
	if actor.wc != nil {
		restore := quietStdout()
		outs, ended = h.loopBatch(actor, encTran(t))
		restore()
		if h.c.failed {
			return
		}
	} else {
		panicked := false
		restore := quietStdout() // a containment added by a change under test may print the stack as dontPanic does
		func() {
			defer restore()
			defer func() {
				if p := recover(); p != nil {
					panicked = true
				}
			}()
			actor.cc.VerifHandleTransaction(t)
		}()
		outs = syncOutbox(h.ts)
		if panicked {
			// handleNewConnection: `defer c.Disconnect()` runs while the panic unwinds
			outs = append(outs, disconnectSync(h.ts, actor.cc)...)
			ended = true
		}
	}
	h.c.Note("malformed_request", what+": "+outStr(t))
	h.ops["malformed"]++
	if ended {
		actor.live = false
		h.record(ev, outs)
		h.ops["malformed-ended-session"]++
		got := map[int]int{}
		for i := range outs {
			if tranType(&outs[i]) == 302 && outs[i].IsReply == 0 {
				if d, _ := fieldOf(&outs[i], 103); u16(d) == actor.id {
					if cc := h.ts.Srv.ClientMgr.Get(outs[i].ClientID); cc != nil {
						got[int(binary.BigEndian.Uint16(cc.ID[:]))]++
					}
				}
			}
		}
		for _, o := range h.live() {
			if got[o.id] != 1 {
				h.c.Violation("user-left-audience", fmt.Sprintf("user %d's session ended on %s: user %d received %d user-left notices, expected 1", actor.id, what, o.id, got[o.id]))
				return
			}
		}
		if h.ts.Srv.ClientMgr.Get(actor.cc.ID) == actor.cc {
			h.c.Violation("disconnect-keeps-entry", "a user whose session ended on a malformed request is still in the client table")
			return
		}
	} else {
		// the server kept the session
		h.record(ev, outs)
		if wasAway {
			h.ops["malformed-by-away-user"]++
		}
		h.ops["malformed-session-kept"]++
		after := rowOf(actor.cc)
		if after != before && actor.agreed {
			// a listed user's row changed: everybody else holding a list must have been told (the user itself is
			// covered by the roster comparison)
			got := map[int]bool{}
			for i := range outs {
				o := &outs[i]
				if o.IsReply == 1 || tranType(o) != 301 {
					continue
				}
				id, _ := fieldOf(o, 103)
				nm, _ := fieldOf(o, 102)
				ic, _ := fieldOf(o, 104)
				fl, _ := fieldOf(o, 112)
				if u16(id) == actor.id && (presRow{string(nm), string(normIcon(ic)), u16(fl)}) == after {
					if cc := h.ts.Srv.ClientMgr.Get(o.ClientID); cc != nil {
						got[int(binary.BigEndian.Uint16(cc.ID[:]))] = true
					}
				}
			}
			for _, o := range h.live() {
				if o != actor && !got[o.id] {
					h.c.Note("row_before", fmt.Sprintf("%s/%s/%d", dataStr([]byte(before.name)), hx([]byte(before.icon)), before.flags))
					h.c.Note("row_after", fmt.Sprintf("%s/%s/%d", dataStr([]byte(after.name)), hx([]byte(after.icon)), after.flags))
					h.c.Note("history", clip(fmt.Sprint(h.evs)))
					h.c.Violation("presence-change-unannounced", fmt.Sprintf("user %d sent %s; the server kept the session and lists the user with the new name / icon, but user %d was never sent the change (nor a user-left notice): its roster cannot converge", actor.id, what, o.id))
					return
				}
			}
		}
	}
	h.soundCheck("after " + what)
	if !h.c.failed {
		h.convergenceCheck("after " + what)
	}
}

// soundCheck is `Presence.never_wrong` judged on the implementation, in ANY state (logins half-way or not): every
// entry of a roster a client holds is the server's current row of a connected user, and every user whose login is
// complete is in it.
func (h *c13run) soundCheck(when string) {
	lv := h.live()
	if len(lv) == 0 {
		return
	}
	res, _, p := callSync(h.ts, lv[0].cc, mkTran(hotline.TranGetUserNameList, 78))
	if p != nil || len(res) != 1 {
		h.c.Violation("user-list-failed", "a user-list request produced no single reply")
		return
	}
	fresh, _, ok := parseUserList(&res[0])
	if !ok {
		h.c.Violation("user-list-malformed", "a record of the user list reply does not parse (id, icon, flags, name length, name)")
		return
	}
	for _, c := range lv {
		if !c.fetched {
			continue
		}
		got, ok := foldRoster(c.inbox)
		if !ok {
			continue
		}
		h.checks++
		ids := make([]int, 0, len(got))
		for id := range got {
			ids = append(ids, id)
		}
		sort.Ints(ids)
		fail := func(key, what string) {
			h.c.Note("when", when)
			h.c.Note("client", c.id)
			h.c.Note("folded_roster", clip(rosterStr(got)))
			h.c.Note("fresh_list", clip(rosterStr(fresh)))
			h.c.Note("history", clip(fmt.Sprint(h.evs)))
			h.c.Violation(key, what)
		}
		for _, id := range ids {
			f, in := fresh[id]
			if !in {
				fail("roster-ghost", fmt.Sprintf("user %d's roster still lists user %d, who is not connected any more: no user-left notice reached it", c.id, id))
				return
			}
			if f != got[id] {
				fail("roster-stale-entry", fmt.Sprintf("user %d's roster shows user %d as %s but the server lists %s: a change reached the server's list without a notice to this client", c.id, id, got[id], f))
				return
			}
		}
		for _, o := range lv {
			if _, in := got[o.id]; o.agreed && !in {
				fail("roster-misses-user", fmt.Sprintf("user %d's roster lacks user %d, whose login is complete", c.id, o.id))
				return
			}
		}
	}
}
