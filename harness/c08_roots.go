//go:build c08

package main

// C08, wave d: configurations and schedules the first families did not have.
//
//   download-account-root  accounts with their OWN file root (Account.FileRoot) next to sessions on the server's
//                          root: the same relative path exists under several roots with different contents, sizes and
//                          side files; every session must be announced AND sent the file of ITS root (single file,
//                          resume, preview).  Judged by the monitors of checkDownload plus a root classification of
//                          reply and stream compared with the model's routing (DownloadRoots.lean).
//   download-port          the same through the real outermost transfer entry: Server.ServeFileTransfers on a loopback
//                          TCP listener, the control side through the real handleNewConnection / handleTransaction /
//                          outbox; the reference client reads the socket to EOF.
//   download-stats-polled  statistics readers (Server.CurrentStats = what GET /api/v1/stats calls) poll concurrently
//                          while downloads are granted and transferred; judged by "every granted download delivers
//                          exactly its bytes" within a bound that is generous for an in-memory transfer of < 100 KB.

import (
	"context"
	"encoding/binary"
	"fmt"
	"io"
	"net"
	"os"
	"path/filepath"
	"runtime"
	"strings"
	"sync"
	"sync/atomic"
	"time"

	"github.com/jhalter/mobius/hotline"
	"github.com/jhalter/mobius/internal/mobius"
)

// c08Rooted is one session of the rooted fixture: an account, the file root its session uses, and (direct mode) its client.
type c08Rooted struct {
	login string
	pw    string
	root  string // the root string as configured (account's own, or the server's)
	own   bool   // the account carries its own FileRoot
	cc    *hotline.ClientConn
	wc    *WireClient
}

// c08RootedTS builds a server whose account directory holds, next to admin (no FileRoot: the server's root), accounts
// with their own FileRoot, loaded by the real YAML account loader.
func c08RootedTS(r *RNG, opt TSOpt) (*TS, []*c08Rooted, error) {
	ts, err := newTS(opt)
	if err != nil {
		return nil, nil, err
	}
	sess := []*c08Rooted{{login: "admin", pw: "secret", root: ts.Root}}
	dirs := []string{filepath.Join(ts.Cfg, "AcctRoots", "one"), filepath.Join(ts.Cfg, "AcctRoots", "two", "deeper")}
	if r.Bool() {
		dirs[1] = filepath.Join(ts.Root, "Inside") // an account root nested in the server's root
	}
	for i, d := range dirs {
		if err := os.MkdirAll(d, 0755); err != nil {
			ts.Close()
			return nil, nil, err
		}
		conf := d
		if r.Chance(25) {
			conf = d + "/" // the root string is used verbatim; ReadPath cleans it
		}
		acc := allAccess()
		if i == 1 {
			acc = guestAccess()
		}
		login := fmt.Sprintf("rooted%d", i+1)
		if err := writeAccount(ts.Users, AcctSpec{Login: login, Name: login, Password: "", Access: acc, FileRoot: conf}); err != nil {
			ts.Close()
			return nil, nil, err
		}
		sess = append(sess, &c08Rooted{login: login, root: conf, own: true})
	}
	am, err := mobius.NewYAMLAccountManager(ts.Users)
	if err != nil {
		ts.Close()
		return nil, nil, err
	}
	ts.Acct, ts.Srv.AccountManager = am, am
	return ts, sess, nil
}

// c08PlaceUnderRoots writes files under the SAME relative path (pathField, req) in a random non-empty subset of the
// roots: distinct sizes (>= 8 bytes, so that the data identifies the root), own contents, own side files.
func c08PlaceUnderRoots(c *Case, sess []*c08Rooted, maxSize int) (files []*diskFile, pathField []byte, ok bool) {
	r := c.R
	var items [][]byte
	for d := r.Pick(0, 0, 1, 2); d > 0; d-- {
		items = append(items, genReqName(r, 20))
	}
	if len(items) > 0 {
		pathField = encodePathItems(items)
	}
	req := genReqName(r, 60)
	files = make([]*diskFile, len(sess))
	present := 0
	sizes := map[int]bool{}
	for i, s := range sess {
		if !(r.Chance(75) || (i == len(sess)-1 && present < 2)) {
			continue
		}
		full, err := hotline.ReadPath(s.root, pathField, req)
		if err != nil {
			return nil, nil, false
		}
		size := 8 + c08Sizes(r, maxSize)
		for sizes[size] {
			size++
		}
		sizes[size] = true
		f := &diskFile{Dir: filepath.Dir(full), Name: filepath.Base(full), ReqName: req, Data: genData(r, size), ModTime: randModTime(r)}
		switch r.Intn(4) {
		case 0:
			in := randInfoSpec(r, req)
			f.Info = &in
		case 1:
			f.HasRsrc, f.Rsrc = true, genData(r, r.Pick(0, 1, 300, r.Intn(3000)))
		case 2:
			in := randInfoSpec(r, req)
			f.Info = &in
			f.HasRsrc, f.Rsrc = true, genData(r, r.Intn(2000))
		}
		if f.write() != nil {
			return nil, nil, false
		}
		files[i] = f
		present++
	}
	return files, pathField, present >= 2
}

// c08RouteSpec renders the model's view of one path: session roots and what each root holds there.
func c08RouteSpec(sess []*c08Rooted, files []*diskFile, who int) string {
	acct := "-"
	if sess[who].own {
		acct = hx([]byte(sess[who].root))
	}
	var sb strings.Builder
	n := 0
	for i, f := range files {
		if f != nil {
			n++
			fmt.Fprintf(&sb, " %s %s", hx([]byte(sess[i].root)), f.oracleSpec())
		}
	}
	return fmt.Sprintf("%s %s %d%s", hx([]byte(sess[0].root)), acct, n, sb.String())
}

// c08ClassifyStream names the root whose file the stream carries (by its data-fork bytes from offset k), "none" when
// no candidate matches.
func c08ClassifyStream(sess []*c08Rooted, files []*diskFile, stream []byte, rq dlRequestSpec) string {
	body := stream
	if !rq.preview {
		sp := splitFlattened(stream, 0)
		if !sp.OK {
			return "unparseable"
		}
		body = stream[len(sp.Hdr):]
	}
	for i, f := range files {
		if f == nil || rq.k > len(f.Data) {
			continue
		}
		want := f.Data[rq.k:]
		if len(body) >= len(want) && bytesEq(body[:len(want)], want) {
			// the longest candidate that matches is unambiguous: sizes are distinct and contents random
			rest := body[len(want):]
			if len(rest) == 0 || len(rest) == len(f.Rsrc) || len(rest) == 16+len(f.Rsrc) {
				return hx([]byte(sess[i].root))
			}
		}
	}
	return "none"
}

func c08ClassifyReply(sess []*c08Rooted, files []*diskFile, fileSize int, rq dlRequestSpec) string {
	for i, f := range files {
		if f != nil && len(f.Data)-rq.k == fileSize {
			return hx([]byte(sess[i].root))
		}
	}
	return "none"
}

func c08ReplySizes(reply *hotline.Transaction) (ref [4]byte, xfer, fsize int, ok bool) {
	refB, ok1 := getField(reply, hotline.FieldRefNum)
	f108, ok2 := getField(reply, hotline.FieldTransferSize)
	f207, ok3 := getField(reply, hotline.FieldFileSize)
	if !ok1 || !ok2 || !ok3 || len(refB) != 4 || len(f108) != 4 || len(f207) != 4 {
		return ref, 0, 0, false
	}
	copy(ref[:], refB)
	return ref, int(binary.BigEndian.Uint32(f108)), int(binary.BigEndian.Uint32(f207)), true
}

func c08DownloadFields(f []byte, pathField []byte, rq dlRequestSpec) []hotline.Field {
	fields := []hotline.Field{fld(hotline.FieldFileName, f)}
	if pathField != nil {
		fields = append(fields, fld(hotline.FieldFilePath, pathField))
	}
	if rq.resume {
		fields = append(fields, fld(hotline.FieldFileResumeData, resumeDataBytes(rq.k)))
	}
	if rq.preview {
		fields = append(fields, fld(hotline.FieldFileTransferOptions, []byte{0, 2}))
	}
	return fields
}

// c08RootRequests: resume offsets that are valid for EVERY candidate (so that the classification is total).
func c08RootRequests(r *RNG, files []*diskFile) []dlRequestSpec {
	min := -1
	for _, f := range files {
		if f != nil && (min < 0 || len(f.Data) < min) {
			min = len(f.Data)
		}
	}
	out := []dlRequestSpec{{}}
	out = append(out, dlRequestSpec{resume: true, k: r.Pick(0, 1, min-1, min, r.Intn(min+1))})
	if r.Bool() {
		out = append(out, dlRequestSpec{preview: true, resume: r.Bool(), k: 0})
	}
	if r.Chance(30) {
		out = append(out, dlRequestSpec{resume: true, k: r.Intn(min + 1), preview: true})
	}
	for i := range out {
		if !out[i].resume {
			out[i].k = 0
		}
	}
	return out
}

// ---------------------------------------------------------------- family download-account-root (direct handlers)

func runC08AccountRoot(c *Case) {
	r := c.R
	ts, sess, err := c08RootedTS(r, TSOpt{Direct: true, PreserveForks: r.Bool()})
	if err != nil {
		c.Note("setup", err.Error())
		return
	}
	defer ts.Close()
	set := &transferSet{ts: ts, x: c.X}
	var post []func()
	defer func() {
		if !set.waitAll() {
			c.Violation("transfer-handler-hangs", "a transfer handler did not return")
		}
		for _, f := range post {
			f()
		}
	}()
	for i, s := range sess {
		s.cc, _ = ts.DirectClient(s.login, []byte(s.login), fmt.Sprintf("127.0.0.1:%d", 2000+i))
		if s.cc.Account == nil {
			c.Disagree("fixture", "account "+s.login+" was not loaded")
			return
		}
		if s.own != (s.cc.Account.FileRoot != "") {
			c.Disagree("fixture", "account file root not loaded as written")
			return
		}
	}
	id := uint32(1)
	for fi := 0; fi < 4; fi++ {
		files, pathField, ok := c08PlaceUnderRoots(c, sess, 60*1024)
		if !ok {
			c.Dist("skip/placement")
			continue
		}
		order := r.Intn(len(sess))
		for j := range sess {
			who := (order + j) % len(sess)
			s, f := sess[who], files[who]
			spec := c08RouteSpec(sess, files, who)
			for _, rq := range c08RootRequests(r, files) {
				id++
				c.Note("session_login", s.login)
				c.Note("session_root", s.root)
				c.Note("account_has_own_root", s.own)
				c.Note("roots_holding_the_path", spec)
				if f == nil {
					// nothing under THIS session's root: the request names no file (outside the property's quantifier)
					c.Dist("account-root/absent-under-session-root")
					continue
				}
				c.Dist(fmt.Sprintf("account-root/own=%v", s.own))
				// (1) the full judgement of reply and stream against the file of THIS session's root
				checkDownload(c, ts, set, &post, s.cc, id, f, pathField, rq)
				// (2) routing: which root's file did the reply describe, which root's file did the transfer carry
				id++
				res, _, pan := ts.Call(s.cc, mkTran(hotline.TranDownloadFile, id, c08DownloadFields(f.ReqName, pathField, rq)...))
				if pan != nil || len(res) != 1 || res[0].ErrorCode != [4]byte{} {
					continue // reported by (1)
				}
				ref, _, fsize, ok := c08ReplySizes(&res[0])
				if !ok {
					continue
				}
				conn := newDlgConn(preambleBytes(ref, 0), randSegs(r), nil)
				x := set.start(ref, conn)
				if !x.waitBody() {
					c.Violation("transfer-handler-hangs", "the download transfer did not finish")
					return
				}
				stream := conn.Written()
				rr, sr := c08ClassifyReply(sess, files, fsize, rq), c08ClassifyStream(sess, files, stream, rq)
				c.Note("reply_describes_root", string(unhxOr(rr)))
				c.Note("stream_carries_root", string(unhxOr(sr)))
				if rr != sr {
					c.Violation("reply-and-stream-different-files", "the reply announces the file of one root, the transfer connection carries the file of another")
				}
				c.Corr("download-root-routing", fmt.Sprintf("granted=true reply=%s stream=%s", rr, sr),
					c.AskS("dlroute", kTok(rq), pvTok(rq), hx(ref[:]), spec), true)
				c.Nontrivial(fmt.Sprintf("route|%d|%v|%d|%v|%v|%d", who, s.own, len(f.Data), rq.resume, rq.preview, rq.k))
			}
		}
	}
}

func unhxOr(s string) []byte {
	if s == "none" || s == "unparseable" {
		return []byte(s)
	}
	return unhx(s)
}

func kTok(rq dlRequestSpec) string {
	if rq.resume {
		return fmt.Sprint(rq.k)
	}
	return "-"
}

func pvTok(rq dlRequestSpec) string {
	if rq.preview {
		return "1"
	}
	return "0"
}

// ---------------------------------------------------------------- judging a stream that did not come through checkDownload

// c08Judge evaluates the property's clauses on a reply and the bytes a reference client read from the transfer
// connection (same VIOLATION keys as checkDownload), and compares reply and stream shape with the model.
func c08Judge(c *Case, f *diskFile, rq dlRequestSpec, reply *hotline.Transaction, stream []byte, via string) {
	size := len(f.Data)
	describe := func() {
		c.Note("via", via)
		c.Note("file", f.path())
		c.Note("request_name_hex", hx(f.ReqName))
		c.Note("size", size)
		c.Note("info_fork", f.Info != nil)
		c.Note("rsrc_fork_len", map[bool]int{true: len(f.Rsrc), false: -1}[f.HasRsrc])
		c.Note("resume", rq.resume)
		c.Note("offset", rq.k)
		c.Note("preview", rq.preview)
		c.Note("stream_bytes", len(stream))
	}
	viol := func(key, what string) { describe(); c.Violation(key, what) }
	ref, xferSize, fileSize, ok := c08ReplySizes(reply)
	if !ok {
		viol("download-reply-fields", "the download reply lacks the reference number, transfer size or file size field")
		return
	}
	rem := size - rq.k
	describe()
	c.Corr("download-reply", replyCanon(reply), c.AskS("dlreply", kTok(rq), pvTok(rq), hx(ref[:]), f.oracleSpec()), true)
	if fileSize != rem {
		viol("reply-file-size", fmt.Sprintf("reply field 207 announces %d, the remaining data length is %d", fileSize, rem))
	}
	var wantTrailer []byte
	if !rq.resume {
		wantTrailer = append(wantTrailer, forkHeaderBytes("MACR", len(f.Rsrc))...)
	}
	wantTrailer = append(wantTrailer, f.Rsrc...)
	var hdr, data, trailer []byte
	if rq.preview {
		if xferSize != rem {
			viol("preview-transfer-size", fmt.Sprintf("preview: reply field 108 announces %d, the remaining data length is %d", xferSize, rem))
		}
		if len(stream) < rem {
			viol("preview-short", fmt.Sprintf("preview: %d bytes sent, %d data bytes remain", len(stream), rem))
			return
		}
		data, trailer = stream[:rem], stream[rem:]
	} else {
		sp := splitFlattened(stream, rem)
		if !sp.OK {
			c.Note("stream", short(stream))
			viol("download-stream-unparseable", "the reference client cannot split the download stream: "+sp.Why)
			return
		}
		hdr, data, trailer = sp.Hdr, sp.Data, sp.Trailer
		eff := f.effInfo()
		if sp.InfoSize != len(sp.Info) || sp.InfoSize != len(eff.encode()) {
			viol("header-info-size", fmt.Sprintf("INFO size field %d, information fork is %d bytes", sp.InfoSize, len(eff.encode())))
		}
		if sp.NameSize != len(sp.Name) || !bytesEq(sp.Name, eff.Name) {
			viol("header-name-size", fmt.Sprintf("name size field %d / name in the header differ from the file's name (%d bytes)", sp.NameSize, len(eff.Name)))
		}
		if sp.ForkCount != f.forkCount() {
			viol("header-fork-count", fmt.Sprintf("fork count %d, expected %d", sp.ForkCount, f.forkCount()))
		}
		if !f.HasRsrc && xferSize != len(hdr)+rem {
			viol("reply-transfer-size", fmt.Sprintf("no resource fork stored: reply field 108 announces %d, header (%d) + remaining data (%d) = %d", xferSize, len(hdr), rem, len(hdr)+rem))
		}
		extra := 16
		if rq.resume {
			extra = 0
		}
		if len(stream) != xferSize+extra {
			viol("stream-length-vs-transfer-size", fmt.Sprintf("%d bytes sent, transfer size %d (+%d for the fork header)", len(stream), xferSize, extra))
		}
	}
	if !bytesEq(data, f.Data[rq.k:]) {
		c.Note("diff", firstDiff(data, f.Data[rq.k:]))
		viol("download-data", fmt.Sprintf("the data part is not the file's bytes from offset %d to the end", rq.k))
	}
	if !bytesEq(trailer, wantTrailer) {
		c.Note("trailer", short(trailer))
		c.Note("trailer_expected", short(wantTrailer))
		viol("download-trailer", "the bytes after the data fork are not the MACR fork header (and the stored resource fork)")
	}
	// stream shape against the model (the handler's error value is not visible to a client: compared without it)
	rr := len(f.Rsrc)
	if rr > len(trailer) {
		rr = len(trailer)
	}
	impl := fmt.Sprintf("len=%d hdr=%s data=%d trailer=%s rsrc=%d", len(stream), hx(hdr), len(data), hx(trailer[:len(trailer)-rr]), rr)
	model := c.AskS("dlstream", kTok(rq), pvTok(rq), f.oracleSpec())
	if i := strings.LastIndex(model, " err="); i >= 0 {
		model = model[:i]
	}
	describe()
	c.Corr("download-stream", impl, model, true)
	c.Dist(fmt.Sprintf("%s/forks=%v,%v resume=%v preview=%v", via, f.Info != nil, f.HasRsrc, rq.resume, rq.preview))
	if len(stream) > 0 {
		c.Nontrivial(fmt.Sprintf("%s|%s|%d|%v|%d|%s|%s", via, hx([]byte(f.Name)), size, f.Info != nil, len(f.Rsrc), kTok(rq), pvTok(rq)))
	}
}

// ---------------------------------------------------------------- family download-port (real transfer listener)

func runC08Port(c *Case) {
	r := c.R
	ts, sess, err := c08RootedTS(r, TSOpt{PreserveForks: r.Bool()})
	if err != nil {
		c.Note("setup", err.Error())
		return
	}
	defer ts.Close()
	ln, err := net.Listen("tcp", "127.0.0.1:0")
	if err != nil {
		c.Dist("skip/no-loopback-listener")
		return
	}
	srvDone := make(chan struct{})
	go func() {
		defer close(srvDone)
		_ = ts.Srv.ServeFileTransfers(context.Background(), ln) // the accept loop behind the server's transfer port
	}()
	defer func() {
		ln.Close()
		<-srvDone
	}()
	for i, s := range sess {
		wc, err := ts.LoginOK(fmt.Sprintf("10.8.%d.1:4000", i+1), s.login, s.pw, randSegs(r))
		if err != nil {
			// LoginOK waits five seconds for the login reply: on an overloaded machine that is not a finding of C08
			c.Dist("skip/login-not-answered-in-time")
			c.Note("login_error", s.login+": "+err.Error())
			return
		}
		s.wc = wc
		defer wc.Conn.EOF()
	}
	type pend struct {
		s      *c08Rooted
		f      *diskFile
		rq     dlRequestSpec
		reply  *hotline.Transaction
		stream []byte
		err    error
		done   bool
	}
	var ps []*pend
	id := uint32(10)
	for fi := 0; fi < 3; fi++ {
		files, pathField, ok := c08PlaceUnderRoots(c, sess, 150*1024)
		if !ok {
			continue
		}
		for who, s := range sess {
			f := files[who]
			if f == nil {
				continue
			}
			for _, rq := range c08RootRequests(r, files) {
				id++
				s.wc.Conn.Feed(encTran(mkTran(hotline.TranDownloadFile, id, c08DownloadFields(f.ReqName, pathField, rq)...)))
				rep, ok := s.wc.ReplyTo(id, 60*time.Second)
				if !ok || rep.ErrorCode != [4]byte{} {
					c.Note("file", f.path())
					c.Note("session_login", s.login)
					c.Violation("download-request-refused", "a download request for an existing file, sent on the control connection, got no reference number")
					continue
				}
				ps = append(ps, &pend{s: s, f: f, rq: rq, reply: rep})
			}
		}
	}
	// all transfer connections at once (the server keeps each open for three seconds after the last byte)
	var wg sync.WaitGroup
	for _, p := range ps {
		ref, _, _, ok := c08ReplySizes(p.reply)
		if !ok {
			c.Violation("download-reply-fields", "the download reply lacks the reference number, transfer size or file size field")
			continue
		}
		atomic.AddInt64(&c.X.evals, 1)
		wg.Add(1)
		go func(p *pend, ref [4]byte) {
			defer wg.Done()
			conn, err := net.DialTimeout("tcp", ln.Addr().String(), 30*time.Second)
			if err != nil {
				p.err = err
				return
			}
			defer conn.Close()
			pre := preambleBytes(ref, 0)
			cut := r0cut(len(pre), ref)
			conn.Write(pre[:cut])
			if cut < len(pre) {
				conn.Write(pre[cut:])
			}
			conn.SetReadDeadline(time.Now().Add(150 * time.Second))
			b, err := io.ReadAll(conn)
			p.stream = b
			if ne, ok := err.(net.Error); ok && ne.Timeout() {
				p.err = err // the server neither sent more nor closed: not judged as a short stream
				return
			}
			p.done = true
		}(p, ref)
	}
	wg.Wait()
	for _, p := range ps {
		if p.reply == nil {
			continue
		}
		if !p.done {
			if p.err != nil {
				c.Dist("port/client-error")
				c.Note("client_error", p.err.Error())
			}
			if _, _, _, ok := c08ReplySizes(p.reply); ok && p.err != nil {
				if ne, isNet := p.err.(net.Error); isNet && ne.Timeout() {
					c.Note("file", p.f.path())
					c.Violation("download-not-delivered", "the transfer connection of a granted download was neither served to its end nor closed within 150 s")
				}
			}
			continue
		}
		c.Note("session_login", p.s.login)
		c.Note("session_root", p.s.root)
		c08Judge(c, p.f, p.rq, p.reply, p.stream, "port")
	}
}

// r0cut: where the client splits its 16-byte preamble into two TCP writes (derived from the reference number the
// server chose, so that the per-case PRNG is not shared between goroutines).
func r0cut(n int, ref [4]byte) int {
	k := int(ref[3]) % (n + 1)
	if k == 0 {
		return n
	}
	return k
}

// ---------------------------------------------------------------- family download-stats-polled

// c08DeliveryBound: how long a granted download of < 100 KB over an in-memory connection may take before it counts
// as not delivered.  The transfers of this family need microseconds of CPU; the bound only has to outlast scheduling
// delays of a loaded machine.
const c08DeliveryBound = 75 * time.Second

func runC08StatsPolled(c *Case) {
	r := c.R
	ts, err := newTS(TSOpt{Direct: true, PreserveForks: r.Bool()})
	if err != nil {
		c.Note("setup", err.Error())
		return
	}
	defer ts.Close()
	var stop atomic.Bool
	var polls atomic.Int64
	readers := 2 + r.Intn(3)
	var rwg sync.WaitGroup
	for i := 0; i < readers; i++ {
		rwg.Add(1)
		go func() {
			defer rwg.Done()
			for !stop.Load() {
				st := ts.Srv.CurrentStats() // = Stats.Values(): what GET /api/v1/stats serves
				if len(st) == 0 {
					return
				}
				polls.Add(1)
				runtime.Gosched()
			}
		}()
	}
	hung := false
	defer func() {
		stop.Store(true)
		if !hung {
			// the readers end at their next iteration; a reader stuck inside the statistics call is not waited for
			ch := make(chan struct{})
			go func() { rwg.Wait(); close(ch) }()
			select {
			case <-ch:
			case <-time.After(c08DeliveryBound):
			}
		}
	}()
	cc, _ := ts.DirectClient("admin", []byte("admin"), "127.0.0.1:1234")
	type run struct {
		f      *diskFile
		rq     dlRequestSpec
		reply  hotline.Transaction
		conn   *dlgConn
		ref    [4]byte
		expect int
		done   chan error
	}
	var runs []*run
	id := uint32(1)
	for fi := 0; fi < 4; fi++ {
		f, pathField, err := genDiskFile(c, ts, 90*1024)
		if err != nil || f.write() != nil {
			continue
		}
		for _, rq := range c08Requests(r, len(f.Data))[:3] {
			if rq.k > len(f.Data) {
				continue
			}
			if !rq.resume {
				rq.k = 0
			}
			id++
			// the request itself is made while the readers poll: a reader must not keep a grant from being given either
			type callRes struct {
				res []hotline.Transaction
				pan any
			}
			ch := make(chan callRes, 1)
			go func() {
				res, _, pan := ts.Call(cc, mkTran(hotline.TranDownloadFile, id, c08DownloadFields(f.ReqName, pathField, rq)...))
				ch <- callRes{res, pan}
			}()
			var cr callRes
			select {
			case cr = <-ch:
			case <-time.After(c08DeliveryBound):
				hung = true
				c.Note("file", f.path())
				c.Note("stats_readers", readers)
				c.Violation("download-not-delivered", fmt.Sprintf("a download request made while %d statistics readers poll got no answer within %v", readers, c08DeliveryBound))
				return
			}
			if cr.pan != nil || len(cr.res) != 1 || cr.res[0].ErrorCode != [4]byte{} {
				c.Note("file", f.path())
				c.Violation("download-request-refused", "a granted download request for an existing file got no reference number")
				continue
			}
			ref, xfer, _, ok := c08ReplySizes(&cr.res[0])
			if !ok {
				c.Violation("download-reply-fields", "the download reply lacks the reference number, transfer size or file size field")
				continue
			}
			expect := xfer
			if !rq.resume && !rq.preview {
				expect += 16
			}
			if rq.preview {
				// a preview is followed by the fork part too (not counted by the transfer size)
				expect = xfer + len(f.Rsrc)
				if !rq.resume {
					expect += 16
				}
			}
			rn := &run{f: f, rq: rq, reply: cr.res[0], ref: ref, expect: expect, done: make(chan error, 1)}
			rn.conn = newDlgConn(preambleBytes(ref, 0), randSegs(r), nil)
			runs = append(runs, rn)
		}
	}
	// all granted transfers are carried out at once, while the readers keep polling
	for _, rn := range runs {
		atomic.AddInt64(&c.X.evals, 1)
		go func(rn *run) { rn.done <- ts.Srv.VerifHandleFileTransfer(rn.conn, "127.0.0.1:1234") }(rn)
	}
	deadline := time.Now().Add(c08DeliveryBound)
	for _, rn := range runs {
		// delivered = the transfer's body finished (transfer deregistered or handler returned); at the bound, a stream
		// that already holds every announced byte also counts as delivered
		for {
			finished := ts.Srv.FileTransferMgr.Get(rn.ref) == nil
			select {
			case e := <-rn.done:
				rn.done <- e
				finished = true
			default:
			}
			if finished {
				break
			}
			if time.Now().After(deadline) {
				if len(rn.conn.Written()) >= rn.expect {
					break
				}
				hung = true
				c.Note("file", rn.f.path())
				c.Note("size", len(rn.f.Data))
				c.Note("offset", rn.rq.k)
				c.Note("stats_readers", readers)
				c.Note("stats_polls_so_far", polls.Load())
				c.Note("bytes_delivered", len(rn.conn.Written()))
				c.Note("bytes_announced", rn.expect)
				c.Violation("download-not-delivered", fmt.Sprintf("a granted download delivered %d of %d bytes within %v while %d statistics readers were polling Server.CurrentStats",
					len(rn.conn.Written()), rn.expect, c08DeliveryBound, readers))
				return
			}
			time.Sleep(200 * time.Microsecond)
		}
	}
	stop.Store(true)
	for _, rn := range runs {
		c.Note("stats_readers", readers)
		c08Judge(c, rn.f, rn.rq, &rn.reply, rn.conn.Written(), "stats-polled")
	}
	c.Dist(fmt.Sprintf("stats-polled/readers=%d", readers))
	if polls.Load() > 0 {
		c.Dist("stats-polled/reads-overlapped-transfers")
	}
	// let the handlers run out (three-second courtesy sleep) before the fixture is removed
	for _, rn := range runs {
		select {
		case <-rn.done:
		case <-time.After(c08DeliveryBound):
			hung = true
			c.Note("file", rn.f.path())
			c.Note("stats_readers", readers)
			c.Violation("transfer-handler-hangs", "a transfer handler did not return")
			return
		}
	}
}
