//go:build c09

package main

// C09, wave e — the DECLARED fork sizes.
//
// The data-fork (and resource-fork) length in the flattened-file header is a 32-bit field the client fills in; the
// server copies "exactly the declared number of bytes".  The other families always declare what they then send
// (≤ 2 MiB).  Here the declared sizes are drawn from the whole 32-bit range — the boundaries 0x7FFFFFFF,
// 0x80000000, 0x80000001, 0xFFFFFFFF, 0x100000, 0xFFFF, 0x10000 and random values — while the client only ever
// sends a short prefix before the connection dies (the size is a header field: nothing of that size is allocated or
// sent; the information fork stays small because the header parser allocates ITS declared size).  Each history is
// 1..4 such attempts, every one continuing from the offset the server reports, and ends either there or with an
// honest attempt that declares the short remainder and completes.  Judged with the property's predicate after every
// attempt (nothing published before the data fork is complete, partial file = exactly the bytes received, reported
// offset = bytes held, completion publishes exactly what was sent) and against the model (`uphandle`, `upconn`,
// `updeclared`).

import (
	"fmt"
	"os"
	"path/filepath"
	"strings"

	"github.com/jhalter/mobius/hotline"
)

var c09DeclaredBoundaries = []int{0x7FFFFFFF, 0x80000000, 0x80000001, 0xFFFFFFFF, 0xFFFFFFFE, 0x100000, 0x100001, 0xFFFF, 0x10000,
	0x7FFFFFFE, 0xC0000000, 0x8000, 0x80000000 + 4096, 0x01000000, 0xFF000000}

func c09DeclaredSize(r *RNG, atLeast int) int {
	d := c09DeclaredBoundaries[r.Intn(len(c09DeclaredBoundaries))]
	switch r.Intn(6) {
	case 0:
		d = 0x100000 + r.Intn(0xFFFFFFFF-0x100000)
	case 1:
		d = 0x80000000 + r.Intn(0x7FFFFFFF)
	}
	if d <= atLeast {
		d = 0x80000000 + atLeast
	}
	return d
}

type declTarget struct {
	c         *Case
	ts        *TS
	set       *transferSet
	cc        *hotline.ClientConn
	id        *uint32
	req       []byte
	dir, name string
	fc        int
	info      infoSpec
	file      []byte // every byte the client will ever send of its data fork, in order
	held      int    // data bytes the server must hold in <name>.incomplete
	hasInc    bool
	published bool
	log       []string
	events    []string
	obs       []string
}

func (u *declTarget) describe() {
	u.c.Note("target", filepath.Join(u.dir, u.name))
	u.c.Note("fork_count", u.fc)
	u.c.Note("info_len", len(u.info.encode()))
	u.c.Note("attempts", strings.Join(u.log, " ; "))
}

func (u *declTarget) viol(key, what string) { u.describe(); u.c.Violation(key, what) }

func (u *declTarget) modelState() (string, string) {
	if u.published {
		return fmt.Sprint(u.held), "-"
	}
	if u.hasInc {
		return "-", fmt.Sprint(u.held)
	}
	return "-", "-"
}

// attempt: one request + one transfer connection that declares `declData` data-fork bytes (and, for fork count 3 when
// the data fork is complete, `declRsrc` resource-fork bytes), delivers `send` data bytes (and `sendRsrc` resource bytes)
// and dies; hdrCut ≥ 0 cuts the connection after that many bytes instead (inside preamble / header).
func (u *declTarget) attempt(declData, send, declRsrc, sendRsrc, hdrCut int) bool {
	c := u.c
	*u.id++
	resume := u.hasInc
	fields := []hotline.Field{fld(hotline.FieldFileName, u.req)}
	if resume {
		fields = append(fields, fld(hotline.FieldFileTransferOptions, []byte{0, 1}))
	} else {
		fields = append(fields, fld(hotline.FieldTransferSize, be32(declData)))
	}
	res, _, pan := u.ts.Call(u.cc, mkTran(hotline.TranUploadFile, *u.id, fields...))
	if pan != nil {
		c.Note("panic", fmt.Sprint(pan))
		u.viol("upload-request-panics", "HandleUploadFile panicked on a well-formed request")
		return false
	}
	fin0, inc0 := u.modelState()
	model := c.AskS("uphandle", fin0, inc0, map[bool]string{true: "1", false: "0"}[resume])
	impl := "noreply"
	var ref [4]byte
	offset := 0
	if len(res) == 1 {
		r0 := res[0]
		refB, hasRef := getField(&r0, hotline.FieldRefNum)
		rd, hasRD := getField(&r0, hotline.FieldFileResumeData)
		switch {
		case r0.ErrorCode != [4]byte{}:
			impl = "refused"
		case hasRef && len(refB) == 4 && !hasRD:
			impl = "ok"
			copy(ref[:], refB)
		case hasRef && len(refB) == 4 && hasRD:
			copy(ref[:], refB)
			o, ok := parseResumeOffset(rd)
			if !ok {
				u.viol("resume-data-unparseable", "the resume reply's field 203 is not resume data with a DATA fork entry")
				return false
			}
			offset = o
			impl = fmt.Sprintf("ok %d %s", o, hx(rd))
		default:
			impl = "malformed " + replyCanon(&r0)
		}
	}
	u.log = append(u.log, fmt.Sprintf("%s declared-data=%#x send=%d declared-rsrc=%#x send-rsrc=%d hdr-cut=%d → %s",
		map[bool]string{true: "resume", false: "fresh"}[resume], declData, send, declRsrc, sendRsrc, hdrCut, strings.SplitN(impl, " 52464c54", 2)[0]))
	u.describe()
	c.Corr("upload-reply", impl, model, false)
	if resume {
		// the property: the reported offset is the number of bytes held
		inc, has := readOpt(filepath.Join(u.dir, u.name+".incomplete"))
		if !strings.HasPrefix(impl, "ok ") || !has || offset != len(inc) || offset != u.held {
			u.viol("reported-offset", fmt.Sprintf("after a cut upload the resume request was answered %q; the partial file holds %d bytes (exists=%v), the server received %d data bytes", clip(impl), len(inc), has, u.held))
			return false
		}
	} else if impl != "ok" {
		u.viol("fresh-upload-not-granted", "an upload request for a free name was not granted: "+clip(impl))
		return false
	}
	// the connection
	hdr := ffoHeaderBytes(u.fc, u.info, declData)
	body := append([]byte{}, u.file[u.held:u.held+send]...)
	if u.fc == 3 && send == declData {
		body = append(body, forkHeaderBytes("MACR", declRsrc)...)
		body = append(body, genData(c.R, sendRsrc)...)
	}
	total := len(hdr) + declData
	if u.fc == 3 {
		total += 16 + declRsrc
	}
	conn := append(preambleBytes(ref, total), hdr...) // the preamble's size field is 32 bits: be32 keeps the low bits
	conn = append(conn, body...)
	if hdrCut >= 0 && hdrCut < 16+len(hdr) {
		conn = conn[:hdrCut]
	}
	got := len(conn) - 16 - len(hdr) // data bytes that arrived
	if got < 0 {
		got = 0
	}
	if got > send {
		got = send
	}
	dataComplete := len(conn) >= 16+len(hdr) && got == declData
	streamComplete := dataComplete && (u.fc != 3 || (len(conn) == 16+len(hdr)+declData+16+declRsrc))
	x := u.set.start(ref, newDlgConn(conn, randSegs(c.R), nil))
	if !x.waitBody() {
		u.viol("transfer-handler-hangs", "the upload transfer did not finish")
		return false
	}
	// model of the transfer handler on these very bytes (declared sizes read as unsigned 32-bit numbers)
	regions := [][2]int{{16 + len(hdr), 16 + len(hdr) + got}}
	if u.fc == 3 && dataComplete && len(conn) > 16+len(hdr)+got+16 {
		regions = append(regions, [2]int{16 + len(hdr) + got + 16, len(conn)})
	}
	st := c.AskS("upconn", fin0, inc0, hexzRegions(conn, regions))
	// … and of the client + server step with the declared size as an explicit parameter
	if hdrCut < 0 && !dataComplete {
		c.Corr("upload-declared-step", st, c.AskS("updeclared", "7", fmt.Sprint(u.fc), u.info.oracleArgs(), inc0, fmt.Sprint(declData), fmt.Sprint(send)), false)
	}
	prevInc := u.hasInc
	// what the property demands on disk now
	if len(conn) >= 16 {
		u.hasInc = true
	}
	u.held += got
	fin, hasFin := readOpt(filepath.Join(u.dir, u.name))
	inc, hasInc := readOpt(filepath.Join(u.dir, u.name+".incomplete"))
	fl, il := "-", "-"
	if hasFin {
		fl = fmt.Sprint(len(fin))
	}
	if hasInc {
		il = fmt.Sprint(len(inc))
	}
	step := fmt.Sprintf("after attempt %d", len(u.log))
	c.Note("step", step)
	c.Note("on_disk", fmt.Sprintf("final=%s partial=%s", fl, il))
	u.describe()
	c.Corr("upload-state", fl+" "+il, st, false)
	switch {
	case streamComplete:
		if !hasFin || !bytesEq(fin, u.file[:u.held]) || hasInc {
			u.viol("complete-upload-not-published", step+": the whole stream was delivered but the final name does not hold exactly the bytes the client sent (or a partial file remains)")
			return false
		}
		u.published, u.hasInc = true, false
	default:
		if hasFin && !dataComplete {
			u.viol("published-before-complete", fmt.Sprintf("%s: the connection died after %d of the %d (%#x) declared data-fork bytes, yet the final name exists (%s bytes)", step, got, declData, declData, fl))
			return false
		}
		if hasFin {
			// data fork complete, resource fork cut: not against the statement; the model comparison above reports a difference
			u.published, u.hasInc = true, false
			break
		}
		if len(conn) >= 16 {
			if !hasInc || !bytesEq(inc, u.file[:u.held]) {
				c.Note("partial_len", len(inc))
				c.Note("expected_partial_len", u.held)
				u.viol("partial-not-exact-prefix", fmt.Sprintf("%s: the partial file (exists=%v, %d bytes) does not hold exactly the %d data bytes received so far", step, hasInc, len(inc), u.held))
				return false
			}
		} else if prevInc != hasInc {
			u.viol("cut-in-preamble-changed-state", step+": a connection that died inside the preamble changed the partial file's existence")
			return false
		}
	}
	if got > 0 {
		c.Nontrivial(fmt.Sprintf("decl|%#x|%d|%d|%d|%#x", declData, u.held-got, got, u.fc, declRsrc))
	}
	c.Dist("declared/" + c09DeclBucket(declData))
	return true
}

func c09DeclBucket(d int) string {
	switch {
	case d >= 0x80000000:
		return "data>=2^31"
	case d >= 0x100000:
		return "data-2^20..2^31-1"
	default:
		return "data<2^20"
	}
}

func runC09Declared(c *Case) {
	r := c.R
	ts, set, cc, _, done := c09Setup(c)
	if ts == nil {
		return
	}
	defer done()
	id := uint32(10)
	for h := 0; h < 6 && !c.failed; h++ {
		req := genReqName(r, 40)
		dir, name, err := diskNameOf(ts, nil, req)
		if err != nil {
			c.Dist("skip/name-undecodable")
			continue
		}
		if _, err := os.Stat(filepath.Join(dir, name)); err == nil {
			continue
		}
		u := &declTarget{c: c, ts: ts, set: set, cc: cc, id: &id, req: req, dir: dir, name: name, fc: 2, info: randInfoSpec(r, req)}
		if len(u.info.Comment) > 40 {
			u.info.Comment = u.info.Comment[:r.Intn(40)]
		}
		if r.Chance(40) {
			u.fc = 3
		}
		u.file = genData(r, 24000)
		hdrLen := 56 + len(u.info.encode())
		n := 1 + r.Intn(4)
		ok := true
		for a := 0; a < n && ok; a++ {
			send := r.Pick(0, 1, 10, 10, 100, 1+r.Intn(3000), 4096, 1+r.Intn(300))
			hdrCut := -1
			if r.Chance(12) {
				hdrCut = r.Pick(0, 15, 16, 17, 16+40, 16+hdrLen-1, 16+hdrLen-4, r.Intn(16+hdrLen))
			}
			ok = u.attempt(c09DeclaredSize(r, send), send, 0, 0, hdrCut)
		}
		if ok && r.Chance(60) {
			// the honest end: the remainder is short; with fork count 3 the resource fork is declared large and cut
			// (first) and small and whole (then)
			rem := r.Pick(0, 1, 50, 1+r.Intn(2000))
			if u.fc == 3 && r.Chance(50) {
				ok = u.attempt(rem, rem, c09DeclaredSize(r, 300), r.Intn(300), -1)
				rem = 0
			}
			if ok && !u.published {
				rl := r.Pick(0, 1, 40, r.Intn(500))
				ok = u.attempt(rem, rem, rl, rl, -1)
				if ok && !u.published {
					u.viol("upload-never-completes", "an uncut attempt declaring exactly what it sent did not complete the upload")
				}
			}
		}
		c.Sample(map[string]any{"family": c.Fam, "attempts": u.log})
	}
}

func init() {
	c09ExtraFamilies = append(c09ExtraFamilies, &Family{Name: "upload-declared-sizes", Quick: 24, Thor: 300, Run: runC09Declared})
}
