//go:build c20

package main

// C20, family `request-crash-points` — the crash points of a whole REQUEST.
//
// The families in c20.go drive the stores' own methods.  A client's change, however, is a transaction handled by a
// HANDLER, and a handler composes store calls: the batched account editor (TranUpdateUser) makes one
// AccountManager call per record of the request, a rename is one of those records, disconnect-and-ban adds a ban,
// a board post formats and writes, ….  Here the REAL handler (HandleUpdateUser / HandleSetUser / HandleNewUser /
// HandleDeleteUser / HandleDisconnectUser / HandleTranOldPostNews / the threaded-news handlers) runs in the
// strace'd child on a real hotline.Server built over the config directory; the crash point ranges over EVERY call
// boundary of the whole request – also between two store calls of one request – and every crash state is
// materialised and loaded with the real constructors.
//
// Judge (reading): a record of a request is one change.  Every crash state must load as the state after some PREFIX
// of the request's records (one record: old or new); when all calls are done and the request was acknowledged, as
// the state the server has in memory.  The states "after the first j records" come from running the request cut
// after j records on a copy of the pre-state (complete runs of the same handler; bcrypt salts differ between runs,
// so a stored password is compared by the plaintext it verifies).
//
// Model: Lean `Crash.reqProg` (concatenation of the records' programs, each decided in the state its predecessors
// left) – `c20reqprog` / `c20reqsim`; the handler's store calls are observed through a wrapper around the
// AccountManager interface field (markers between store calls) and compared with the records.

import (
	"encoding/binary"
	"encoding/hex"
	"encoding/json"
	"fmt"
	"os"
	"os/exec"
	"path/filepath"
	"runtime"
	"sort"
	"strconv"
	"strings"
	"sync"

	"github.com/jhalter/mobius/hotline"
	"github.com/jhalter/mobius/internal/mobius"
	"golang.org/x/crypto/bcrypt"
)

// ---------------------------------------------------------------- job (shared by parent and child)

type c20ReqField struct {
	ID   uint16 `json:"id"`
	Data string `json:"data"` // hex
}

type c20ReqTran struct {
	Kind       string        `json:"kind"`
	Type       uint16        `json:"type"`
	Fields     []c20ReqField `json:"fields"`
	VictimAddr string        `json:"victim_addr,omitempty"` // disconnect: a client connected from this address is registered first; its ID goes into FieldUserID
}

type c20ReqJob struct {
	Dir        string       `json:"dir"`
	Reqs       []c20ReqTran `json:"reqs"`
	IPs        []string     `json:"ips"`
	Pws        []string     `json:"pws"` // hex: every password plaintext (as sent) the case uses
	Result     string       `json:"result"`
	PrefixBase string       `json:"prefix_base"`
}

type c20StoreCall struct {
	Req    int    `json:"req"`
	Method string `json:"method"`
	A      string `json:"a"`
	B      string `json:"b,omitempty"`
	Err    bool   `json:"err,omitempty"`
}

type c20ReqResult struct {
	LoadError  string            `json:"load_error"`
	Acked      []bool            `json:"acked"`
	Panics     []string          `json:"panics"`
	StoreCalls []c20StoreCall    `json:"store_calls"`
	MemBefore  map[string]string `json:"mem_before"`
	MemAfter   map[string]string `json:"mem_after"`
	Prefixes   int               `json:"prefixes"`
	PrefixErr  string            `json:"prefix_err"`
}

// ---------------------------------------------------------------- values with passwords by class

var c20PwCache sync.Map

// c20PwClass names a stored password by the first candidate plaintext it verifies (bcrypt salts are random).
func c20PwClass(hash string, cands [][]byte) string {
	if v, ok := c20PwCache.Load(hash); ok {
		return v.(string)
	}
	cls := "raw:" + hash
	for i, p := range cands {
		if bcrypt.CompareHashAndPassword([]byte(hash), p) == nil {
			cls = fmt.Sprintf("pw#%d", i)
			break
		}
	}
	c20PwCache.Store(hash, cls)
	return cls
}

func c20ReqValues(s *c20Stores, ips []string, cands [][]byte) map[string]string {
	v := c20Values(s, ips)
	accts := s.acct.List()
	sort.Slice(accts, func(i, j int) bool { return accts[i].Login < accts[j].Login })
	var sb strings.Builder
	for _, a := range accts {
		fmt.Fprintf(&sb, "%q %q %s %x %q\n", a.Login, a.Name, c20PwClass(a.Password, cands), a.Access[:], a.FileRoot)
	}
	v["accounts"] = sb.String()
	return v
}

func c20ReqLoadValues(dir string, ips []string, cands [][]byte) (v map[string]string, errStr string) {
	defer func() {
		if r := recover(); r != nil {
			errStr = fmt.Sprint("panic while loading: ", r)
		}
	}()
	s, err := c20Load(dir)
	if err != nil {
		return nil, err.Error()
	}
	return c20ReqValues(s, ips, cands), ""
}

func c20Cands(pws []string) [][]byte {
	var out [][]byte
	for _, p := range pws {
		b, _ := hex.DecodeString(p)
		out = append(out, b)
	}
	return out
}

// ---------------------------------------------------------------- child

// c20AMWrap wraps the server's AccountManager interface field: every mutating call is recorded and preceded by a
// marker the tracer sees (an open of a file that does not exist), so the trace of a request splits into its store calls.
type c20AMWrap struct {
	hotline.AccountManager
	dir   string
	req   int
	n     int
	calls []c20StoreCall
}

func (w *c20AMWrap) mark(method, a, b string) int {
	w.n++
	w.calls = append(w.calls, c20StoreCall{Req: w.req, Method: method, A: a, B: b})
	if f, err := os.Open(filepath.Join(w.dir, c20Marker+strconv.Itoa(w.req*100+w.n))); err == nil {
		f.Close()
	}
	return len(w.calls) - 1
}

func (w *c20AMWrap) Create(a hotline.Account) error {
	i := w.mark("Create", a.Login, "")
	err := w.AccountManager.Create(a)
	w.calls[i].Err = err != nil
	return err
}

func (w *c20AMWrap) Update(a hotline.Account, newLogin string) error {
	i := w.mark("Update", a.Login, newLogin)
	err := w.AccountManager.Update(a, newLogin)
	w.calls[i].Err = err != nil
	return err
}

func (w *c20AMWrap) Delete(login string) error {
	i := w.mark("Delete", login, "")
	err := w.AccountManager.Delete(login)
	w.calls[i].Err = err != nil
	return err
}

type c20ReqSrv struct {
	srv   *hotline.Server
	s     *c20Stores
	wrap  *c20AMWrap
	actor *hotline.ClientConn
}

// c20ReqServer builds a real server over the stores of dir, the way cmd/mobius-hotline-server wires it; the acting
// client is logged in with an account that is not part of the directory (so no generated change touches its rights).
func c20ReqServer(dir string) (*c20ReqSrv, error) {
	s, err := c20Load(dir)
	if err != nil {
		return nil, err
	}
	srv, err := hotline.NewServer(hotline.WithLogger(discardLogger), hotline.WithConfig(hotline.Config{Name: "verif", Description: "d", FileRoot: filepath.Join(dir, "Files")}))
	if err != nil {
		return nil, err
	}
	w := &c20AMWrap{AccountManager: s.acct, dir: dir}
	srv.MessageBoard = s.board
	srv.BanList = s.bans
	srv.ThreadedNewsMgr = s.news
	srv.AccountManager = w
	mobius.RegisterHandlers(srv)
	go func() { // something must drain the outbox (SendAll blocks otherwise)
		for range srv.VerifOutbox() {
		}
	}()
	cc := srv.NewClientConn(&nopConn{}, "10.4.0.1:1000")
	cc.Account = &hotline.Account{Login: "operator", Name: "operator", Access: allAccess()}
	cc.Account.Access.Set(hotline.AccessCannotBeDiscon)
	cc.UserName = []byte("op")
	cc.Logger = discardLogger
	return &c20ReqSrv{srv: srv, s: s, wrap: w, actor: cc}, nil
}

func (rs *c20ReqSrv) run(rq c20ReqTran) (acked bool, pan string) {
	var fields []hotline.Field
	if rq.VictimAddr != "" {
		v := rs.srv.NewClientConn(&nopConn{}, rq.VictimAddr)
		v.Account = &hotline.Account{Login: "victim", Name: "victim"}
		v.UserName = []byte("victim")
		v.Logger = discardLogger
		fields = append(fields, hotline.NewField(hotline.FieldUserID, v.ID[:]))
	}
	for _, f := range rq.Fields {
		d, _ := hex.DecodeString(f.Data)
		var id [2]byte
		binary.BigEndian.PutUint16(id[:], f.ID)
		fields = append(fields, hotline.NewField(id, d))
	}
	var ty hotline.TranType
	binary.BigEndian.PutUint16(ty[:], rq.Type)
	t := mkTran(ty, 7, fields...)
	h, ok := rs.srv.VerifHandlers()[ty]
	if !ok {
		return false, "no handler"
	}
	func() {
		defer func() {
			if r := recover(); r != nil {
				pan = fmt.Sprint(r)
			}
		}()
		for _, r := range h(rs.actor, &t) {
			if r.IsReply == 1 && r.ErrorCode == [4]byte{} {
				acked = true
			}
		}
	}()
	return
}

func c20ReqChild(jobPath string) {
	runtime.LockOSThread()
	var job c20ReqJob
	b, err := os.ReadFile(jobPath)
	if err != nil || json.Unmarshal(b, &job) != nil {
		os.Exit(3)
	}
	cands := c20Cands(job.Pws)
	var res c20ReqResult
	rs, err := c20ReqServer(job.Dir)
	if err != nil {
		res.LoadError = err.Error()
	} else {
		pre := filepath.Join(job.PrefixBase, "pre")
		for i, rq := range job.Reqs {
			if i == len(job.Reqs)-1 {
				res.MemBefore = c20ReqValues(rs.s, job.IPs, cands)
				c20CopyDir(job.Dir, pre)
			}
			rs.wrap.req, rs.wrap.n = i, 0
			if f, err := os.Open(filepath.Join(job.Dir, c20Marker+strconv.Itoa(i*100))); err == nil {
				f.Close()
			}
			ack, pan := rs.run(rq)
			res.Acked = append(res.Acked, ack)
			res.Panics = append(res.Panics, pan)
		}
		if f, err := os.Open(filepath.Join(job.Dir, c20Marker+"end")); err == nil {
			f.Close()
		}
		res.MemAfter = c20ReqValues(rs.s, job.IPs, cands)
		res.StoreCalls = rs.wrap.calls
		// the request cut after j records, run to completion on a copy of the pre-state: the admissible intermediate states
		last := job.Reqs[len(job.Reqs)-1]
		if last.Type == binary.BigEndian.Uint16(hotline.TranUpdateUser[:]) {
			for j := 1; j < len(last.Fields); j++ {
				d := filepath.Join(job.PrefixBase, strconv.Itoa(j))
				c20CopyDir(pre, d)
				ps, err := c20ReqServer(d)
				if err != nil {
					res.PrefixErr = err.Error()
					break
				}
				cut := last
				cut.Fields = last.Fields[:j]
				if _, pan := ps.run(cut); pan != "" {
					res.PrefixErr = "panic: " + pan
					break
				}
				res.Prefixes = j
			}
		}
	}
	out, _ := json.Marshal(res)
	os.WriteFile(job.Result, out, 0644)
}

func init() {
	if job := os.Getenv("C20_REQ_CHILD"); job != "" {
		c20ReqChild(job)
		os.Exit(0)
	}
	c20ExtraFamilies = append(c20ExtraFamilies, func(x *Ctx) {
		x.rule += " || family request-crash-points: a case = 1..5 earlier requests + one request IN FLIGHT, all through the real handlers on a real server over the config directory (kinds cycled: batched update-user of 2..4 records mixing create / modify (password kept, changed, removed) / rename onto a free login / delete / a rename onto an existing login as the last record; one-record update-user rename; set-user; new-user; delete-user; disconnect with temporary / permanent ban; board post; news category / bundle / article post / article delete / category delete); the crash point ranges over EVERY call boundary of the WHOLE request (between the store calls of a batch as well); non-trivial = the request made a system call on the config directory and changed what the stores load; distinct = (kind, request, pre-state listing)"
		x.Add(&Family{Name: "request-crash-points", Quick: 330, Thor: 4000, Run: c20ReqCase})
	})
}

// ---------------------------------------------------------------- request construction

func c20Sub(id [2]byte, data []byte) []byte {
	b := append([]byte{}, id[:]...)
	b = append(b, be16(len(data))...)
	return append(b, data...)
}

type c20Rec struct {
	U      c20Update
	PwMode string // create: "new"; modify / rename: keep | new | remove
	Pw     string
}

func obf(s string) []byte { return hotline.EncodeString([]byte(s)) }

// c20RecordField renders one record of the batched account editor (a FieldData holding a count and sub-fields).
func c20RecordField(rec c20Rec) c20ReqField {
	u := rec.U
	var subs [][]byte
	acc := c20AccessOf(u.Access)
	switch u.Kind {
	case "acct-delete":
		subs = append(subs, c20Sub(hotline.FieldData, obf(u.Login)))
	case "acct-create":
		subs = append(subs, c20Sub(hotline.FieldUserLogin, obf(u.Login)), c20Sub(hotline.FieldUserName, []byte(u.Name)),
			c20Sub(hotline.FieldUserPassword, []byte(rec.Pw)), c20Sub(hotline.FieldUserAccess, acc[:]))
	default: // acct-update: modify or rename
		if u.NewLogin != u.Login {
			subs = append(subs, c20Sub(hotline.FieldData, obf(u.Login)))
		}
		subs = append(subs, c20Sub(hotline.FieldUserLogin, obf(u.NewLogin)), c20Sub(hotline.FieldUserName, []byte(u.Name)), c20Sub(hotline.FieldUserAccess, acc[:]))
		switch rec.PwMode {
		case "keep":
			subs = append(subs, c20Sub(hotline.FieldUserPassword, []byte{0}))
		case "new":
			subs = append(subs, c20Sub(hotline.FieldUserPassword, []byte(rec.Pw)))
		}
	}
	b := be16(len(subs))
	for _, s := range subs {
		b = append(b, s...)
	}
	return c20ReqField{ID: binary.BigEndian.Uint16(hotline.FieldData[:]), Data: hex.EncodeToString(b)}
}

func c20F(id [2]byte, data []byte) c20ReqField {
	return c20ReqField{ID: binary.BigEndian.Uint16(id[:]), Data: hex.EncodeToString(data)}
}

func c20T(ty hotline.TranType) uint16 { return binary.BigEndian.Uint16(ty[:]) }

// c20GenRec draws one account record that is valid in world w (and updates w).
func c20GenRec(r *RNG, w *c20World, allowExisting bool) c20Rec {
	pwm := func() (string, string) {
		switch r.Intn(10) {
		case 0, 1, 2, 3, 4:
			return "keep", ""
		case 5, 6, 7:
			return "new", "p" + c20Token(r, 1+r.Intn(8))
		}
		return "remove", ""
	}
	for {
		switch k := r.Intn(20); {
		case k < 6:
			l := "u" + c20Token(r, 1+r.Intn(6))
			dup := false
			for _, x := range w.logins {
				dup = dup || x == l
			}
			if dup {
				continue
			}
			w.logins = append(w.logins, l)
			return c20Rec{U: c20Update{Kind: "acct-create", Login: l, Name: "N " + c20Token(r, 5), Access: c20RandAccess(r)}, PwMode: "new", Pw: "c" + c20Token(r, r.Intn(8))}
		case k < 10:
			l := w.logins[r.Intn(len(w.logins))]
			m, p := pwm()
			return c20Rec{U: c20Update{Kind: "acct-update", Login: l, NewLogin: l, Name: "M " + c20Token(r, r.Pick(3, 5, 200)), Access: c20RandAccess(r)}, PwMode: m, Pw: p}
		case k < 16:
			i := r.Intn(len(w.logins))
			l := w.logins[i]
			nl := "r" + c20Token(r, 1+r.Intn(6))
			dup := false
			for _, x := range w.logins {
				dup = dup || x == nl
			}
			if dup {
				continue
			}
			w.logins[i] = nl
			m, p := pwm()
			return c20Rec{U: c20Update{Kind: "acct-update", Login: l, NewLogin: nl, Name: "R " + c20Token(r, 5), Access: c20RandAccess(r)}, PwMode: m, Pw: p}
		case k < 19:
			if len(w.logins) <= 2 {
				continue
			}
			i := r.Intn(len(w.logins))
			l := w.logins[i]
			w.logins = append(append([]string{}, w.logins[:i]...), w.logins[i+1:]...)
			return c20Rec{U: c20Update{Kind: "acct-delete", Login: l}}
		default:
			if !allowExisting || len(w.logins) < 2 {
				continue
			}
			i := r.Intn(len(w.logins))
			j := r.Intn(len(w.logins))
			if i == j {
				continue
			}
			m, p := pwm()
			return c20Rec{U: c20Update{Kind: "acct-update", Login: w.logins[i], NewLogin: w.logins[j], Name: "X " + c20Token(r, 4), Access: c20RandAccess(r), Existing: true}, PwMode: m, Pw: p}
		}
	}
}

// c20ReqOfUpdate turns a generated store-level update into the client request that causes it.
func c20ReqOfUpdate(r *RNG, u c20Update, pws *[]string) (c20ReqTran, []c20Rec) {
	acc := c20AccessOf(u.Access)
	switch u.Kind {
	case "board-post":
		return c20ReqTran{Kind: "board-post", Type: c20T(hotline.TranOldPostNews), Fields: []c20ReqField{c20F(hotline.FieldData, []byte("post "+c20Token(r, r.Pick(0, 1, 30, 400, 5000))))}}, nil
	case "news-cat":
		if u.Bundle {
			return c20ReqTran{Kind: "news-fldr", Type: c20T(hotline.TranNewNewsFldr), Fields: []c20ReqField{c20F(hotline.FieldFileName, []byte(u.Name)), c20F(hotline.FieldNewsPath, c20NewsPath(u.Path...))}}, nil
		}
		return c20ReqTran{Kind: "news-cat", Type: c20T(hotline.TranNewNewsCat), Fields: []c20ReqField{c20F(hotline.FieldNewsCatName, []byte(u.Name)), c20F(hotline.FieldNewsPath, c20NewsPath(u.Path...))}}, nil
	case "news-post":
		return c20ReqTran{Kind: "news-post", Type: c20T(hotline.TranPostNewsArt), Fields: []c20ReqField{c20F(hotline.FieldNewsPath, c20NewsPath(u.Path...)),
			c20F(hotline.FieldNewsArtID, be32(int(u.Parent))), c20F(hotline.FieldNewsArtTitle, []byte(u.Name)), c20F(hotline.FieldNewsArtDataFlav, []byte("text/plain")),
			c20F(hotline.FieldNewsArtData, []byte(u.Data))}}, nil
	case "news-del-art":
		return c20ReqTran{Kind: "news-del-art", Type: c20T(hotline.TranDelNewsArt), Fields: []c20ReqField{c20F(hotline.FieldNewsPath, c20NewsPath(u.Path...)),
			c20F(hotline.FieldNewsArtID, be32(int(u.ID))), c20F(hotline.FieldNewsArtRecurseDel, []byte{0, 0})}}, nil
	case "news-del-item":
		return c20ReqTran{Kind: "news-del-item", Type: c20T(hotline.TranDelNewsItem), Fields: []c20ReqField{c20F(hotline.FieldNewsPath, c20NewsPath(u.Path...))}}, nil
	case "ban-add":
		opt := byte(2)
		if u.Until != 0 {
			opt = 1
		}
		return c20ReqTran{Kind: "disconnect-ban", Type: c20T(hotline.TranDisconnectUser), VictimAddr: u.IP + ":4000", Fields: []c20ReqField{c20F(hotline.FieldOptions, []byte{0, opt})}}, nil
	case "acct-create":
		pw := "c" + c20Token(r, r.Intn(8))
		*pws = append(*pws, hex.EncodeToString([]byte(pw)))
		rec := c20Rec{U: u, PwMode: "new", Pw: pw}
		if r.Bool() {
			return c20ReqTran{Kind: "new-user", Type: c20T(hotline.TranNewUser), Fields: []c20ReqField{c20F(hotline.FieldUserLogin, obf(u.Login)), c20F(hotline.FieldUserName, []byte(u.Name)),
				c20F(hotline.FieldUserPassword, []byte(pw)), c20F(hotline.FieldUserAccess, acc[:])}}, []c20Rec{rec}
		}
		return c20ReqTran{Kind: "update-user-1", Type: c20T(hotline.TranUpdateUser), Fields: []c20ReqField{c20RecordField(rec)}}, []c20Rec{rec}
	case "acct-delete":
		rec := c20Rec{U: u}
		if r.Bool() {
			return c20ReqTran{Kind: "delete-user", Type: c20T(hotline.TranDeleteUser), Fields: []c20ReqField{c20F(hotline.FieldUserLogin, obf(u.Login))}}, []c20Rec{rec}
		}
		return c20ReqTran{Kind: "update-user-1", Type: c20T(hotline.TranUpdateUser), Fields: []c20ReqField{c20RecordField(rec)}}, []c20Rec{rec}
	default: // acct-update
		rec := c20Rec{U: u, PwMode: "keep"}
		if u.Login == u.NewLogin && r.Bool() {
			return c20ReqTran{Kind: "set-user", Type: c20T(hotline.TranSetUser), Fields: []c20ReqField{c20F(hotline.FieldUserLogin, obf(u.Login)), c20F(hotline.FieldUserName, []byte(u.Name)),
				c20F(hotline.FieldUserAccess, acc[:]), c20F(hotline.FieldUserPassword, []byte{0})}}, []c20Rec{rec}
		}
		k := "update-user-1"
		if u.Login != u.NewLogin {
			k = "update-user-rename"
		}
		return c20ReqTran{Kind: k, Type: c20T(hotline.TranUpdateUser), Fields: []c20ReqField{c20RecordField(rec)}}, []c20Rec{rec}
	}
}

func c20CloneWorld(w *c20World) *c20World {
	c := *w
	c.logins = append([]string{}, w.logins...)
	c.cats = append([][]string{}, w.cats...)
	c.bundles = append([][]string{}, w.bundles...)
	c.arts = map[string][]uint32{}
	for k, v := range w.arts {
		c.arts[k] = append([]uint32{}, v...)
	}
	c.nextArt = map[string]uint32{}
	for k, v := range w.nextArt {
		c.nextArt[k] = v
	}
	return &c
}

var c20ReqKinds = []string{"update-user-batch", "update-user-rename", "update-user-batch", "set-user", "new-user", "delete-user", "update-user-batch", "update-user-rename",
	"disconnect-ban", "board-post", "news-cat", "news-post", "news-del-art", "news-del-item", "update-user-1"}

// what a generated store-level update must be for the wanted request kind
func c20ReqWants(kind string, u c20Update) bool {
	switch kind {
	case "set-user":
		return u.Kind == "acct-update" && u.Login == u.NewLogin
	case "new-user":
		return u.Kind == "acct-create"
	case "delete-user":
		return u.Kind == "acct-delete"
	case "update-user-rename":
		return u.Kind == "acct-update" && u.Login != u.NewLogin && !u.Existing
	case "update-user-1":
		return strings.HasPrefix(u.Kind, "acct-")
	case "disconnect-ban":
		return u.Kind == "ban-add"
	case "news-cat":
		return u.Kind == "news-cat"
	}
	return u.Kind == kind
}

// ---------------------------------------------------------------- running the child

func c20ReqRunChild(job c20ReqJob, work string) (trace string, res c20ReqResult, err error) {
	jobPath := filepath.Join(work, "job.json")
	job.Result = filepath.Join(work, "result.json")
	os.Remove(job.Result)
	jb, _ := json.Marshal(job)
	if err := os.WriteFile(jobPath, jb, 0644); err != nil {
		return "", res, err
	}
	self, err := os.Executable()
	if err != nil {
		return "", res, err
	}
	trace = filepath.Join(work, "trace.txt")
	args := []string{"-f", "-xx", "-s", "4194304", "-e", "trace=openat,open,creat,write,rename,renameat,renameat2,link,linkat,unlink,unlinkat,close", "-o", trace, self}
	cmd := exec.Command("strace", args...)
	cmd.Env = append(os.Environ(), "C20_REQ_CHILD="+jobPath, "GOMAXPROCS=2")
	out, runErr := cmd.CombinedOutput()
	b, e := os.ReadFile(job.Result)
	if e != nil {
		return trace, res, fmt.Errorf("child left no result (%v): %s", runErr, clip(string(out)))
	}
	json.Unmarshal(b, &res)
	return trace, res, nil
}

// ---------------------------------------------------------------- the case

func c20ReqCase(c *Case) {
	r := c.R
	scratch, err := os.MkdirTemp("/var/tmp", "mobius-verif-c20r-")
	if err != nil {
		panic(err)
	}
	defer os.RemoveAll(scratch)
	d0 := filepath.Join(scratch, "d0")
	users := filepath.Join(d0, "Users")
	os.MkdirAll(users, 0755)
	w := &c20World{logins: []string{"guest", "admin"}, bundles: [][]string{{}}, arts: map[string][]uint32{}, nextArt: map[string]uint32{},
		ips: []string{"10.0.0.1", "10.0.0.2", "192.168.7.7", "10.8.8.8"}}
	for _, a := range []AcctSpec{{Login: "guest", Name: "guest", Access: guestAccess()}, {Login: "admin", Name: "admin", Password: "secret", Access: c20AccessOf(c20DefinedBits)}} {
		if err := writeAccount(users, a); err != nil {
			panic(err)
		}
	}
	pws := []string{"", hex.EncodeToString(obf("secret"))}
	os.WriteFile(filepath.Join(d0, "MessageBoard.txt"), []byte(c20Token(r, r.Pick(0, 1, 200, 3000))), 0644)
	os.WriteFile(filepath.Join(d0, "ThreadedNews.yaml"), []byte(emptyNews), 0644)
	if r.Chance(50) {
		os.WriteFile(filepath.Join(d0, "Banlist.yaml"), []byte("10.9.9.9: null\n"), 0644)
	}
	if r.Chance(30) { // a temp file left by an earlier crash
		os.WriteFile(filepath.Join(users, ".account.tmp"), []byte("Login: ghost\nName: left over\n"+strings.Repeat("stale: [not valid\n", r.Pick(1, 40, 600))), 0644)
	}
	want := c20ReqKinds[int(c.Seed%uint64(len(c20ReqKinds)))]
	bias := "acct"
	switch {
	case want == "board-post":
		bias = "board"
	case strings.HasPrefix(want, "news"):
		bias = "news"
	case want == "disconnect-ban":
		bias = "ban"
	}
	// earlier requests
	var reqs []c20ReqTran
	addSetup := func() {
		u := c20Gen(r, w, bias)
		if u.Existing {
			return
		}
		rq, _ := c20ReqOfUpdate(r, u, &pws)
		reqs = append(reqs, rq)
	}
	for n := 1 + r.Intn(4); len(reqs) < n; {
		addSetup()
	}
	// the request in flight
	var inflight c20ReqTran
	var recs []c20Rec
	if want == "update-user-batch" {
		n := 2 + r.Intn(3)
		for i := 0; i < n; i++ {
			rec := c20GenRec(r, w, i == n-1)
			if rec.PwMode == "new" {
				pws = append(pws, hex.EncodeToString([]byte(rec.Pw)))
			}
			recs = append(recs, rec)
		}
		inflight = c20ReqTran{Kind: want, Type: c20T(hotline.TranUpdateUser)}
		for _, rec := range recs {
			inflight.Fields = append(inflight.Fields, c20RecordField(rec))
		}
	} else {
		for tries := 0; ; tries++ {
			save := c20CloneWorld(w)
			u := c20Gen(r, w, bias)
			if c20ReqWants(want, u) && !u.Existing || tries > 400 {
				inflight, recs = c20ReqOfUpdate(r, u, &pws)
				if tries <= 400 {
					// the single-request kinds are fixed by `want`, not by the coin in c20ReqOfUpdate
					switch want {
					case "set-user", "new-user", "delete-user":
						for inflight.Kind != want {
							inflight, recs = c20ReqOfUpdate(r, u, &pws)
						}
					case "update-user-1", "update-user-rename":
						for inflight.Type != c20T(hotline.TranUpdateUser) {
							inflight, recs = c20ReqOfUpdate(r, u, &pws)
						}
					}
				}
				break
			}
			*w = *save
			if tries%25 == 24 {
				addSetup()
			}
		}
	}
	reqs = append(reqs, inflight)
	lastIdx := len(reqs) - 1
	c.Note("requests", reqs)
	c.Note("in_flight_records", recs)
	ips := append(append([]string{}, w.ips...), "10.9.9.9")
	cands := c20Cands(pws)

	work := filepath.Join(scratch, "work")
	cfg := filepath.Join(work, "config")
	init0 := c20ReadDir(d0)
	if err := init0.write(cfg); err != nil {
		panic(err)
	}
	job := c20ReqJob{Dir: cfg, Reqs: reqs, IPs: ips, Pws: pws, PrefixBase: filepath.Join(work, "prefix")}
	tracePath, res, err := c20ReqRunChild(job, work)
	if err != nil {
		panic(err)
	}
	if res.LoadError != "" {
		panic("child could not load the initial directory: " + res.LoadError)
	}
	for i, p := range res.Panics {
		if p != "" {
			c.Note("request_index", i)
			c.Note("panic", p)
			c.Violation("handler-panics", "a persisting handler panicked")
			return
		}
	}
	calls, err := c20ParseTrace(tracePath, cfg)
	if err != nil {
		panic(err)
	}
	// split: pre-state of the request in flight, its calls (with their store-call ordinal)
	sim := c20NewSim(init0)
	var pre c20State
	var lastCalls []c20Call
	for _, cl := range calls {
		in := cl.Seg >= lastIdx*100 && cl.Seg < (lastIdx+1)*100
		if in && pre == nil {
			pre = sim.state()
		}
		if in {
			lastCalls = append(lastCalls, cl)
		}
		sim.apply(cl)
	}
	if pre == nil {
		pre = sim.state()
	}
	final := c20ReadDir(cfg)
	if a, b := c20Listing(sim.state(), "")+"|"+c20Listing(sim.state(), "Users"), c20Listing(final, "")+"|"+c20Listing(final, "Users"); a != b {
		c.Note("simulated", a)
		c.Note("real", b)
		c.Disagree("trace-replay", "applying the traced calls to the initial directory does not reproduce the directory the child left")
		return
	}

	// the admissible states: after 0, 1, …, n records
	oldDir := filepath.Join(scratch, "old")
	pre.write(oldDir)
	s0, e0 := c20ReqLoadValues(oldDir, ips, cands)
	sN, eN := c20ReqLoadValues(cfg, ips, cands)
	if e0 != "" || eN != "" {
		c.Note("old_error", e0)
		c.Note("new_error", eN)
		c.Violation("state-does-not-load", "the directory before / after a completed request cannot be loaded: "+e0+eN)
		return
	}
	states := []map[string]string{s0}
	nrec := 1
	if inflight.Type == c20T(hotline.TranUpdateUser) {
		nrec = len(inflight.Fields)
	}
	if res.PrefixErr != "" || res.Prefixes != nrec-1 {
		panic("the prefix runs of the request did not complete: " + res.PrefixErr)
	}
	for j := 1; j < nrec; j++ {
		sj, ej := c20ReqLoadValues(filepath.Join(job.PrefixBase, strconv.Itoa(j)), ips, cands)
		if ej != "" {
			c.Note("records", j)
			c.Violation("state-does-not-load", "the directory after the first records of the request, run to completion, cannot be loaded: "+ej)
			return
		}
		states = append(states, sj)
	}
	states = append(states, sN)
	eq := func(a, b map[string]string) bool {
		for _, s := range c20Stores4 {
			if a[s] != b[s] {
				return false
			}
		}
		return true
	}
	// what was acknowledged is on disk; what the server holds in memory is what a restart loads
	if !eq(res.MemBefore, s0) || !eq(res.MemAfter, sN) {
		c.Note("memory_before", res.MemBefore)
		c.Note("disk_before", s0)
		c.Note("memory_after", res.MemAfter)
		c.Note("disk_after", sN)
		c.Violation("acknowledged-change-not-on-disk", "after a request had returned, reloading the directory gives different store values than the ones the server has in memory")
		return
	}

	// store calls the handler made for the request in flight vs its records
	var gotCalls, wantCalls []string
	for _, sc := range res.StoreCalls {
		if sc.Req == lastIdx {
			gotCalls = append(gotCalls, fmt.Sprintf("%s(%s,%s)", sc.Method, sc.A, sc.B))
		}
	}
	for _, rec := range recs {
		switch rec.U.Kind {
		case "acct-create":
			wantCalls = append(wantCalls, fmt.Sprintf("Create(%s,)", rec.U.Login))
		case "acct-delete":
			wantCalls = append(wantCalls, fmt.Sprintf("Delete(%s,)", rec.U.Login))
		default:
			wantCalls = append(wantCalls, fmt.Sprintf("Update(%s,%s)", rec.U.Login, rec.U.NewLogin))
		}
	}
	isAcct := len(recs) > 0
	callsOK := true
	if isAcct {
		callsOK = c.Corr("request-store-calls", strings.Join(gotCalls, " "), strings.Join(wantCalls, " "), false)
	}

	// model: one program per record, concatenated
	var specs []string
	dir, vis, store := "Users", "yaml", "accounts"
	if isAcct {
		dataOf := make([][]byte, len(recs)+1)
		for _, cl := range lastCalls {
			if n := cl.Seg - lastIdx*100; cl.Name == "write" && n >= 1 && n <= len(recs) {
				dataOf[n] = append(dataOf[n], cl.Data...)
			}
		}
		for i, rec := range recs {
			switch rec.U.Kind {
			case "acct-create":
				specs = append(specs, fmt.Sprintf("C:.account.tmp:%s.yaml:%s", rec.U.Login, hx(dataOf[i+1])))
			case "acct-delete":
				specs = append(specs, fmt.Sprintf("D:%s.yaml", rec.U.Login))
			default:
				specs = append(specs, fmt.Sprintf("U:.account.tmp:%s.yaml:%s.yaml:%s", rec.U.Login, rec.U.NewLogin, hx(dataOf[i+1])))
			}
		}
	} else {
		var data []byte
		for _, cl := range lastCalls {
			if cl.Name == "write" {
				data = append(data, cl.Data...)
			}
		}
		k := map[string]string{"board-post": "board-post", "disconnect-ban": "ban-add"}[inflight.Kind]
		if k == "" {
			k = "news-cat"
		}
		var sp string
		sp, dir, vis, store = c20ModelSpec(c20Update{Kind: k}, data)
		specs = []string{sp}
	}
	var names, ents []string
	for p := range pre {
		d, n := filepath.Split(p)
		if strings.TrimSuffix(d, "/") == dir {
			names = append(names, n)
		}
	}
	sort.Strings(names)
	for _, n := range names {
		ents = append(ents, n+":"+hx(pre[filepath.Join(dir, n)]))
	}
	progOK := false
	if callsOK && len(lastCalls) > 0 {
		// the traced calls, split at the store-call markers
		var segs []string
		if isAcct {
			per := make([][]c20Call, len(recs)+1)
			for _, cl := range lastCalls {
				n := cl.Seg - lastIdx*100
				if n < 0 || n > len(recs) {
					n = 0
				}
				per[n] = append(per[n], cl)
			}
			if len(per[0]) > 0 {
				segs = append(segs, "before-the-first-store-call:"+c20CallsCanon(per[0], dir))
			}
			for _, p := range per[1:] {
				segs = append(segs, c20CallsCanon(p, dir))
			}
		} else {
			segs = []string{c20CallsCanon(lastCalls, dir)}
		}
		wantProg := c.AskS("c20reqprog", append(append([]string{strconv.Itoa(len(specs))}, specs...), ents...)...)
		progOK = c.Corr("request-program-"+inflight.Kind, strings.Join(segs, " ; "), wantProg, false)
	}

	// every crash point of the whole request
	cur := c20NewSim(pre)
	verdicts := make([]string, 0, len(lastCalls)+1)
	// byte-level reference for the comparison with the model: the states at the record boundaries of the trace itself
	var boundary []c20State
	if progOK {
		b := c20NewSim(pre)
		boundary = append(boundary, b.state())
		seg := 1
		for i, cl := range lastCalls {
			n := cl.Seg - lastIdx*100
			for isAcct && n > seg {
				boundary = append(boundary, b.state())
				seg++
			}
			b.apply(cl)
			if i == len(lastCalls)-1 {
				for len(boundary) < len(specs)+1 {
					boundary = append(boundary, b.state())
				}
			}
		}
	}
	for k := 0; k <= len(lastCalls); k++ {
		if k > 0 {
			cur.apply(lastCalls[k-1])
		}
		curSt := cur.state()
		kd := filepath.Join(scratch, fmt.Sprintf("crash-%d", k))
		if err := curSt.write(kd); err != nil {
			panic(err)
		}
		v, lerr := c20ReqLoadValues(kd, ips, cands)
		os.RemoveAll(kd)
		note := func() {
			c.Note("crash_point", k)
			c.Note("calls_of_the_request", c20CallsCanon(lastCalls, ""))
			c.Note("store_calls", gotCalls)
			c.Note("state", c20Listing(curSt, "")+" || Users: "+c20Listing(curSt, "Users"))
		}
		if lerr != "" {
			note()
			c.Note("load_error", lerr)
			c.Violation("crash-state-does-not-load", fmt.Sprintf("after a kill following call %d of the request a store refuses to load: %s", k, lerr))
			return
		}
		j := -1
		for i, s := range states {
			if eq(v, s) {
				j = i
				break
			}
		}
		if j < 0 {
			note()
			c.Note("loaded", v)
			for i, s := range states {
				c.Note(fmt.Sprintf("state_after_%d_records", i), s)
			}
			c.Violation("request-crash-state-torn", fmt.Sprintf("after a kill following call %d of the request (%s) the stores load as a state that is not the state after any prefix of the request's records: neither the old nor the new value of the change in flight", k, inflight.Kind))
			return
		}
		if k == len(lastCalls) && res.Acked[lastIdx] && !eq(v, sN) {
			note()
			c.Violation("completed-update-lost", "with all calls of the acknowledged request done the stores do not load as the final state")
			return
		}
		verdicts = append(verdicts, strconv.Itoa(j))
		c.Dist(fmt.Sprintf("request-verdict/%s/%d-of-%d", inflight.Kind, j, nrec))
		if progOK {
			// model: listing of the crash state and the first record boundary whose directory view it equals
			bj := "torn"
			view := func(st c20State) string {
				if strings.HasPrefix(vis, "file=") {
					b, ok := st[strings.TrimPrefix(vis, "file=")]
					return fmt.Sprint(ok) + hx(b)
				}
				var l []string
				for p, b := range st {
					if d, n := filepath.Split(p); strings.TrimSuffix(d, "/") == dir && strings.HasSuffix(n, ".yaml") {
						l = append(l, hx(b))
					}
				}
				sort.Strings(l)
				return strings.Join(l, ",")
			}
			for i, b := range boundary {
				if view(b) == view(curSt) {
					bj = strconv.Itoa(i)
					break
				}
			}
			got := c20Listing(curSt, dir) + " | " + bj + fmt.Sprintf(" %d", len(lastCalls))
			wantS := c.AskS("c20reqsim", append(append([]string{strconv.Itoa(k), vis, strconv.Itoa(len(specs))}, specs...), ents...)...)
			if got != wantS {
				c.Note("crash_point", k)
			}
			c.Corr("request-crash-state-"+inflight.Kind, got, wantS, false)
		}
	}
	// one crash point: restart on the crash state, continue with further updates, reload (c20Recovery)
	if len(lastCalls) > 0 {
		k := r.Intn(len(lastCalls) + 1)
		rs := c20NewSim(pre)
		for i := 0; i < k; i++ {
			rs.apply(lastCalls[i])
		}
		rw := filepath.Join(scratch, "recovery")
		if err := rs.materialise(filepath.Join(rw, "config")); err != nil {
			panic(err)
		}
		lastU := c20Update{Kind: "other"}
		if isAcct {
			lastU = recs[len(recs)-1].U
		}
		if !c20Recovery(c, r, rw, lastU, store, ips, k, "materialised (request)") {
			return
		}
	}
	changed := !eq(s0, sN)
	if len(lastCalls) > 0 && changed {
		c.Nontrivial(fmt.Sprintf("req|%s|%v|%s|%s", inflight.Kind, inflight, c20Listing(pre, ""), c20Listing(pre, "Users")))
	}
	c.Dist("request-in-flight/" + inflight.Kind)
	c.Dist(fmt.Sprintf("request-calls/%d", len(lastCalls)))
	c.Sample(map[string]any{"family": "request-crash-points", "in_flight": inflight.Kind, "records": nrec, "store_calls": strings.Join(gotCalls, " "),
		"calls": len(lastCalls), "prefix_verdicts": strings.Join(verdicts, ",")})
}
