//go:build c15

package main

// C15, wave d:
//
//   * wire-large-fields — the histories of the `histories` family, but every request is SERIALISED and parsed back by the
//     real Transaction.Write (the parser the connection loop hands each scanned transaction to) before the handler
//     sees it, and requests carry fields of 4000 .. 60000 bytes (names, oversized privilege fields, filler fields of
//     unknown types) in every position and order, up to the 64 KiB a connection can deliver.  The model side: the
//     oracle decodes the same BYTES (`c15wire`, Transaction.decode + the sub-record decoder) and must arrive at the
//     fields that were sent (theorem `wire_request_is_its_fields`), in any order (`request_field_order_irrelevant`).
//   * failing-persist — histories in which some requests run while the account store cannot write its temporary
//     file (a non-empty directory occupies Users/.account.tmp): a create / modify that cannot be persisted must leave
//     login = list = disk = restart exactly as they were (model: `createF` / `updateF`, theorem
//     `failed_persist_changes_nothing`, invariant over histories with failing steps `mem_disk_agree_with_failing_persists`).
//   * binary-restart — the REAL server binary, started the way a deployment starts it (`-init` on every start, as the
//     README's docker line does, or without): accounts are created / deleted / renamed through TCP, the process is
//     stopped and started again on the same config directory; logins, list-users and the directory after the restart
//     are those from before it (model: `restart`; fact `Generated.initBranch`: with an existing config dir the -init
//     branch writes nothing).

import (
	"bytes"
	"encoding/binary"
	"fmt"
	"io"
	"net"
	"os"
	"os/exec"
	"path/filepath"
	"runtime/debug"
	"sort"
	"strings"
	"sync"
	"syscall"
	"time"

	"github.com/jhalter/mobius/hotline"
	"golang.org/x/crypto/bcrypt"
	"gopkg.in/yaml.v3"
)

// ---------------------------------------------------------------- requests through the wire parser

// c15BigBytes: n bytes of letters and digits without a period (a shifted or overwritten copy never looks the same).
func c15BigBytes(r *RNG, n int) []byte {
	const al = "abcdefghijklmnopqrstuvwxyzABCDEFGHIJKLMNOPQRSTUVWXYZ0123456789"
	b := make([]byte, n)
	s := r.U64() | 1
	for i := range b {
		s = s*6364136223846793005 + 1442695040888963407
		b[i] = al[(s>>33)%uint64(len(al))]
	}
	return b
}

// beginReq starts a request made of the given field lists: what is left of the 64 KiB a connection's scanner can
// deliver as one transaction may be spent on filler fields.
func (h *c15Run) beginReq(fss ...[]c15Field) {
	if !h.big {
		return
	}
	h.budget = 64000
	for _, fs := range fss {
		h.budget -= 8 // sub-record framing
		for _, f := range fs {
			h.budget -= 4 + len(f.data)
		}
	}
}

// shape (large-field mode only): adds 0..2 filler fields of unknown types with sizes around the scanner's buffer
// sizes and puts the fields in a random order — no handler may depend on either.
func (h *c15Run) shape(fs []c15Field) []c15Field {
	if !h.big {
		return fs
	}
	r := h.c.R
	out := append([]c15Field{}, fs...)
	for i, n := 0, r.Pick(0, 1, 1, 2); i < n; i++ {
		sz := r.Pick(0, 9, 4000, 4088, 4096, 5000, 30000, 60000)
		if sz > h.budget-300 {
			sz = h.budget - 300
		}
		if sz < 0 {
			break
		}
		out = append(out, c15Field{900 + i, c15BigBytes(r, sz)})
		h.budget -= 4 + sz
		h.c.Dist(fmt.Sprintf("filler-field/%d", sz/1000*1000))
	}
	for i := len(out) - 1; i > 0; i-- {
		j := r.Intn(i + 1)
		out[i], out[j] = out[j], out[i]
	}
	return out
}

// c15RefRecord: independent reference decoding of an update-user sub-record (count, then type/size/data each).
func c15RefRecord(d []byte) ([]c15Field, bool) {
	if len(d) < 2 {
		return nil, false
	}
	n := int(binary.BigEndian.Uint16(d))
	d = d[2:]
	var fs []c15Field
	for i := 0; i < n; i++ {
		if len(d) < 4 || len(d) < 4+int(binary.BigEndian.Uint16(d[2:4])) {
			return nil, false
		}
		l := int(binary.BigEndian.Uint16(d[2:4]))
		fs = append(fs, c15Field{int(binary.BigEndian.Uint16(d[0:2])), d[4 : 4+l]})
		d = d[4+l:]
	}
	return fs, true
}

// c15ReqToken renders a request the way the history line does (what the model executes).
func c15ReqToken(t hotline.Transaction) string {
	letter := map[hotline.TranType]string{hotline.TranNewUser: "N", hotline.TranSetUser: "S", hotline.TranDeleteUser: "D",
		hotline.TranGetUser: "G", hotline.TranUpdateUser: "U"}[t.Type]
	var fs []c15Field
	for _, f := range t.Fields {
		fs = append(fs, c15Field{int(binary.BigEndian.Uint16(f.Type[:])), f.Data})
	}
	if letter != "U" {
		return letter + " " + c15Tok(fs)
	}
	s := fmt.Sprintf("U %d", len(fs))
	for _, f := range fs {
		sub, ok := c15RefRecord(f.data)
		if !ok {
			return "U-bad-record"
		}
		s += " " + c15Tok(sub)
	}
	return s
}

// call hands a request to its handler.  In wire mode the request is first serialised and parsed back with the real
// Transaction.Write exactly as the connection loop does (a private copy of the scanned bytes), and the Lean model
// decodes the same bytes: both must arrive at the fields that were sent.
func (h *c15Run) call(t hotline.Transaction) (res []hotline.Transaction, queued []hotline.Transaction, panicked any) {
	if !h.viaWire {
		return h.ts.Call(h.cc, t)
	}
	raw := encTran(t)
	h.c.Dist(fmt.Sprintf("request-bytes/%05d", len(raw)/8192*8192))
	if len(raw) >= 65536 {
		h.c.Note("request_bytes", len(raw))
		h.c.Disagree("generator-request-too-large", "the generator produced a request a connection cannot deliver")
		return h.ts.Call(h.cc, t)
	}
	var p hotline.Transaction
	buf := append([]byte{}, raw...)
	if _, err := p.Write(buf); err != nil {
		h.c.Note("request", short(raw))
		h.c.Note("error", err.Error())
		h.c.Violation("request-not-parsed", "a well-formed account request is rejected by the wire parser: "+err.Error())
		return nil, nil, nil
	}
	if want := c15ReqToken(t); len(raw) <= 40000 || h.c.R.Chance(30) {
		got := h.c.AskS("c15wire", hx(raw))
		if got != want {
			h.c.Note("request", short(raw))
		}
		h.c.Corr("wire-decode-model", want, got, false)
	}
	return h.ts.Call(h.cc, p)
}

func c15WireHistory(c *Case) {
	r := c.R
	h, err := newC15Run(c, "accounts-views-disagree")
	if err != nil {
		c.Disagree("testserver", err.Error())
		return
	}
	defer h.ts.Close()
	h.viaWire, h.big = true, true
	p := c15NewPool(r)
	// names: two ordinary ones, two that alone exceed (or just fit) the scanners' 4096-byte start buffer
	p.names = [][]byte{c15GenName(r), c15GenName(r), c15BigBytes(r, r.Pick(3990, 4000, 4088, 4092, 4096)), c15BigBytes(r, r.Pick(4097, 5000, 9000))}
	n := 8 + r.Intn(7)
	h.check(0)
	for step := 1; step <= n; step++ {
		switch k := r.Intn(100); {
		case k < 28:
			h.stepNewUser(r, p, step)
		case k < 48:
			h.stepSetUser(r, p, step)
		case k < 85:
			h.stepUpdateUser(r, p, step)
		case k < 92:
			h.stepDeleteUser(r, p, step)
		default:
			h.stepRestart(step)
		}
		h.check(step)
	}
	h.wireLogins(2)
	h.finish()
	if h.nMut >= 2 {
		c.Nontrivial(fmt.Sprint(fnv64([]byte(strings.Join(h.toks, " ")))))
	}
	c.Sample(map[string]any{"family": c.Fam, "ops": n, "successful_changes": h.nMut, "logins": len(h.logins)})
}

// ---------------------------------------------------------------- failing persists

// viewsCanon: memory, directory and reloaded manager as one canonical string (hashes as stored).
func (h *c15Run) viewsCanon() string {
	mem, disk, load, problems := h.views()
	cv := func(m map[string]c15View) string {
		var es []string
		for k, v := range m {
			es = append(es, hx([]byte(k))+"="+v.String())
		}
		sort.Strings(es)
		return strings.Join(es, ",")
	}
	return "mem " + cv(mem) + " disk " + cv(disk) + " load " + cv(load) + " problems " + strings.Join(problems, ";")
}

// blockTemp makes every write of the account store's temporary file fail (a non-empty directory occupies its name:
// it can be neither removed nor opened for writing); the returned function lifts the fault.
func (h *c15Run) blockTemp() func() {
	d := filepath.Join(h.ts.Users, ".account.tmp")
	os.Remove(d)
	os.Mkdir(d, 0755)
	os.WriteFile(filepath.Join(d, "occupied"), []byte("x"), 0644)
	return func() { os.RemoveAll(d) }
}

// stepFaulty: one request while the temporary file cannot be written.  Returns false when the case must end
// (state known to be diverged by a documented finding).
func (h *c15Run) stepFaulty(r *RNG, p *c15Pool, step int) bool {
	c := h.c
	var ty hotline.TranType
	var tok, kind string
	var fields []hotline.Field
	switch r.Intn(6) {
	case 0, 1: // new-user
		l := p.login(r)
		pw := p.pw(r)
		fs := []c15Field{{105, obf(l)}, {102, p.name(r)}, {106, pw}, {110, h.access(r)}}
		h.addLogin(l)
		ty, tok, kind, fields = hotline.TranNewUser, "FN "+c15Tok(fs), "new-user", c15Fields(fs)
	case 2: // set-user
		l := h.existing(r, p)
		fs := []c15Field{{105, obf(l)}, {102, p.name(r)}, {110, h.access(r)}}
		if present, data, _ := c15PwChoice(r, p); present {
			fs = append(fs, c15Field{106, data})
		}
		h.addLogin(l)
		ty, tok, kind, fields = hotline.TranSetUser, "FS "+c15Tok(fs), "set-user", c15Fields(fs)
	case 3: // update-user: modify (+ possibly a create after it)
		l := h.existing(r, p)
		fs := []c15Field{{105, obf(l)}, {102, p.name(r)}, {110, h.access(r)}}
		if present, data, _ := c15PwChoice(r, p); present {
			fs = append(fs, c15Field{106, data})
		}
		h.addLogin(l)
		recs := [][]c15Field{fs}
		if r.Chance(40) {
			nl := p.login(r)
			h.addLogin(nl)
			recs = append(recs, []c15Field{{105, obf(nl)}, {102, p.name(r)}, {106, p.pw(r)}, {110, h.access(r)}})
		}
		tok = fmt.Sprintf("FU %d", len(recs))
		for _, fs := range recs {
			fields = append(fields, hotline.NewField(hotline.FieldData, c15SubRecord(fs)))
			tok += " " + c15Tok(fs)
		}
		ty, kind = hotline.TranUpdateUser, "update-user-modify"
	case 4: // update-user: create
		l := p.login(r)
		fs := []c15Field{{105, obf(l)}, {102, p.name(r)}, {106, p.pw(r)}, {110, h.access(r)}}
		h.addLogin(l)
		fields = []hotline.Field{hotline.NewField(hotline.FieldData, c15SubRecord(fs))}
		ty, tok, kind = hotline.TranUpdateUser, "FU 1 "+c15Tok(fs), "update-user-create"
	default: // update-user: rename
		l := h.existing(r, p)
		nl := p.login(r)
		fs := []c15Field{{101, obf(l)}, {105, obf(nl)}, {102, p.name(r)}, {106, []byte{0}}, {110, h.access(r)}}
		h.addLogin(l)
		h.addLogin(nl)
		fields = []hotline.Field{hotline.NewField(hotline.FieldData, c15SubRecord(fs))}
		ty, tok, kind = hotline.TranUpdateUser, "FU 1 "+c15Tok(fs), "update-user-rename"
		if h.ts.Acct.Get(string(l)) != nil && h.ts.Acct.Get(string(nl)) == nil && string(l) != string(nl) {
			kind = "update-user-rename-applies" // (unless the new file name is too long: then nothing happens at all)
		}
	}
	before := h.viewsCanon()
	lift := h.blockTemp()
	res, _, pn := h.ts.Call(h.cc, mkTran(ty, uint32(step), fields...))
	lift()
	o := classify(res, pn)
	h.obs(tok, fmt.Sprintf("step %d %s while the temporary account file cannot be written", step, kind), o)
	c.Dist("failing-persist/" + kind + "/" + o)
	after := h.viewsCanon()
	if kind == "update-user-rename-applies" {
		// Update renames the account file and switches the table BEFORE it writes the new contents: when that write
		// fails the request is refused but memory holds the new login while the file (new name) still says the old
		// one.  Reported to the lead as a finding of the unchanged code; not judged here.
		if after != before {
			c.Dist("observation/rename-then-failed-write-leaves-memory-and-file-apart")
			h.finish()
			return false
		}
	}
	if after != before {
		c.Note("step", step)
		c.Note("request", tok)
		c.Note("reply", o)
		c.Note("before", clip(before))
		c.Note("after", clip(after))
		c.Note("history", strings.Join(h.toks, " "))
		c.Violation("failed-persist-changed-state", fmt.Sprintf("%s while the account store could not write its temporary file (reply: %s) changed the accounts in memory / on disk / after a restart", kind, o))
	}
	h.nMut++
	return true
}

func c15FailingPersist(c *Case) {
	r := c.R
	h, err := newC15Run(c, "accounts-views-disagree")
	if err != nil {
		c.Disagree("testserver", err.Error())
		return
	}
	defer h.ts.Close()
	p := c15NewPool(r)
	n := 8 + r.Intn(9)
	h.check(0)
	for step := 1; step <= n; step++ {
		switch k := r.Intn(100); {
		case k < 45:
			if !h.stepFaulty(r, p, step) {
				c.Nontrivial(strings.Join(h.toks, " "))
				return
			}
		case k < 60:
			h.stepNewUser(r, p, step)
		case k < 70:
			h.stepSetUser(r, p, step)
		case k < 88:
			h.stepUpdateUser(r, p, step)
		case k < 94:
			h.stepDeleteUser(r, p, step)
		default:
			h.stepRestart(step)
		}
		h.check(step)
	}
	h.finish()
	c.Nontrivial(strings.Join(h.toks, " "))
}

// ---------------------------------------------------------------- the real binary, restarted

var (
	c15ServerOnce sync.Once
	c15ServerBin  string
	c15ServerErr  string
)

// c15Server builds cmd/mobius-hotline-server of the tree under test (the module this harness was built against) once per run.
func c15Server() (string, string) {
	c15ServerOnce.Do(func() {
		repo := ""
		if bi, ok := debug.ReadBuildInfo(); ok {
			for _, d := range bi.Deps {
				if d.Path == "github.com/jhalter/mobius" && d.Replace != nil {
					repo = d.Replace.Path
				}
			}
		}
		if repo == "" {
			c15ServerErr = "cannot locate the tree under test from the build info"
			return
		}
		dir := filepath.Join("/var/tmp", "mobius-verif-c15-server-bin", sanitize(repo))
		os.MkdirAll(dir, 0755)
		bin := filepath.Join(dir, "server")
		tmp := filepath.Join(dir, fmt.Sprintf("server.build-%d", os.Getpid()))
		cmd := exec.Command("go", "build", "-o", tmp, "./cmd/mobius-hotline-server")
		cmd.Dir = repo
		cmd.Env = append(os.Environ(), "GOFLAGS=-mod=readonly", "GOPROXY=off", "GOSUMDB=off", "GOTOOLCHAIN=local")
		if out, err := cmd.CombinedOutput(); err != nil {
			os.Remove(tmp)
			c15ServerErr = "go build of the server failed: " + clip(string(out))
			return
		}
		if err := os.Rename(tmp, bin); err != nil {
			os.Remove(tmp)
			c15ServerErr = "cannot install the server binary: " + err.Error()
			return
		}
		c15ServerBin = bin
	})
	return c15ServerBin, c15ServerErr
}

type c15Proc struct {
	cmd  *exec.Cmd
	port int
	done chan struct{}
}

func c15FreePort() int {
	for i := 0; i < 200; i++ {
		l, err := net.Listen("tcp", "127.0.0.1:0")
		if err != nil {
			continue
		}
		p := l.Addr().(*net.TCPAddr).Port
		l2, err := net.Listen("tcp", fmt.Sprintf("127.0.0.1:%d", p+1))
		l.Close()
		if err == nil {
			l2.Close()
			return p
		}
	}
	return 0
}

// c15Start runs the server binary on cfg and waits until it accepts connections (or exited).
func c15Start(bin, cfg string, withInit bool) (*c15Proc, string) {
	for attempt := 0; attempt < 5; attempt++ {
		port := c15FreePort()
		if port == 0 {
			return nil, "no free port pair"
		}
		args := []string{"-config", cfg, "-interface", "127.0.0.1", "-bind", fmt.Sprint(port), "-log-file", cfg + ".log"}
		if withInit {
			args = append([]string{"-init"}, args...)
		}
		cmd := exec.Command(bin, args...)
		cmd.Stdout, cmd.Stderr = io.Discard, io.Discard
		if err := cmd.Start(); err != nil {
			return nil, "cannot start the server binary: " + err.Error()
		}
		p := &c15Proc{cmd: cmd, port: port, done: make(chan struct{})}
		go func() { cmd.Wait(); close(p.done) }()
		deadline := time.Now().Add(90 * time.Second)
		for time.Now().Before(deadline) {
			select {
			case <-p.done:
				deadline = time.Now()
				continue
			default:
			}
			b, _ := os.ReadFile(cfg + ".log")
			if strings.Contains(string(b), "Hotline server started") {
				// the listeners come up right after that line; connecting to the transfer port does not count against the
				// per-address limit of the control port
				if conn, err := net.DialTimeout("tcp", fmt.Sprintf("127.0.0.1:%d", port+1), time.Second); err == nil {
					conn.Close()
					return p, ""
				}
			}
			time.Sleep(5 * time.Millisecond)
		}
		exited := false
		select {
		case <-p.done:
			exited = true
		default:
		}
		p.stop()
		b, _ := os.ReadFile(cfg + ".log")
		if exited && (strings.Contains(string(b), "address already in use") || strings.Contains(string(b), "Hotline server started")) {
			os.Remove(cfg + ".log")
			continue // somebody took the port in between: try another pair
		}
		return nil, "the server did not come up: " + clip(string(b))
	}
	return nil, "no usable port found"
}

func (p *c15Proc) stop() {
	p.cmd.Process.Signal(syscall.SIGTERM)
	select {
	case <-p.done:
	case <-time.After(10 * time.Second):
		p.cmd.Process.Kill()
		<-p.done
	}
}

type c15Conn struct {
	conn net.Conn
	buf  []byte
}

// dial connects from its own loopback source address (the server limits connections per address) and shakes hands.
func (p *c15Proc) dial(srcIdx int) (*c15Conn, error) {
	d := net.Dialer{LocalAddr: &net.TCPAddr{IP: net.IPv4(127, 77, byte(1+srcIdx/250), byte(1+srcIdx%250))}, Timeout: 20 * time.Second}
	conn, err := d.Dial("tcp", fmt.Sprintf("127.0.0.1:%d", p.port))
	if err != nil {
		return nil, err
	}
	conn.SetDeadline(time.Now().Add(60 * time.Second))
	if _, err := conn.Write(clientHandshake); err != nil {
		conn.Close()
		return nil, err
	}
	resp := make([]byte, 8)
	if _, err := io.ReadFull(conn, resp); err != nil {
		conn.Close()
		return nil, fmt.Errorf("handshake: %w", err)
	}
	return &c15Conn{conn: conn}, nil
}

// request sends t and returns the reply carrying its id (server pushes in between are skipped).
func (cn *c15Conn) request(t hotline.Transaction) (*hotline.Transaction, error) {
	cn.conn.SetDeadline(time.Now().Add(60 * time.Second))
	if _, err := cn.conn.Write(encTran(t)); err != nil {
		return nil, err
	}
	for {
		head := make([]byte, 20)
		if _, err := io.ReadFull(cn.conn, head); err != nil {
			return nil, err
		}
		body := make([]byte, binary.BigEndian.Uint32(head[12:16]))
		if _, err := io.ReadFull(cn.conn, body); err != nil {
			return nil, err
		}
		ts, _, err := splitTransactions(append(head, body...))
		if err != nil || len(ts) != 1 {
			return nil, fmt.Errorf("unparseable transaction from the server")
		}
		if ts[0].IsReply == 1 && ts[0].ID == t.ID {
			return &ts[0], nil
		}
	}
}

func (cn *c15Conn) login(l, pwAsSent []byte) (bool, error) {
	r, err := cn.request(mkTran(hotline.TranLogin, 1, fld(hotline.FieldUserLogin, obf(l)), fld(hotline.FieldUserPassword, pwAsSent), fld(hotline.FieldVersion, []byte{0, 190})))
	if err != nil {
		return false, err
	}
	return r.ErrorCode == [4]byte{}, nil
}

// c15DirAccounts parses the Users directory with the yaml library only: file name -> "login:name:access" (no hash).
func c15DirAccounts(users string) (map[string]string, error) {
	out := map[string]string{}
	es, err := os.ReadDir(users)
	if err != nil {
		return nil, err
	}
	for _, e := range es {
		if !strings.HasSuffix(e.Name(), ".yaml") {
			continue
		}
		b, err := os.ReadFile(filepath.Join(users, e.Name()))
		if err != nil {
			return nil, err
		}
		var a hotline.Account
		if err := yaml.Unmarshal(b, &a); err != nil {
			return nil, fmt.Errorf("%s: %v", e.Name(), err)
		}
		out[e.Name()] = hx([]byte(a.Login)) + ":" + hx([]byte(a.Name)) + ":" + hx(a.Access[:]) + ":" + a.Password
	}
	return out, nil
}

func c15MapCanon(m map[string]string) string {
	var es []string
	for k, v := range m {
		es = append(es, k+"="+v)
	}
	sort.Strings(es)
	return strings.Join(es, ",")
}

// listUsers: the list-users reply as sorted records.
func (cn *c15Conn) listUsers(id uint32) ([]string, error) {
	r, err := cn.request(mkTran(hotline.TranListUsers, id))
	if err != nil {
		return nil, err
	}
	if r.ErrorCode != [4]byte{} {
		return nil, fmt.Errorf("list-users refused")
	}
	var recs []string
	for _, f := range r.Fields {
		recs = append(recs, hx(f.Data))
	}
	sort.Strings(recs)
	return recs, nil
}

func c15BinaryRestart(c *Case) {
	r := c.R
	bin, berr := c15Server()
	if bin == "" {
		c.Note("error", berr)
		c.Disagree("server-binary", "the server binary of the tree under test could not be built")
		return
	}
	outer := tmpDirC15("c15bin")
	defer os.RemoveAll(outer)
	cfg := filepath.Join(outer, "cfg")
	users := filepath.Join(cfg, "Users")
	src := 0 // loopback source addresses (the limiter is per server process and address)
	nextSrc := func() int { src++; return src }
	exists := func(l []byte) bool {
		_, err := os.Stat(filepath.Join(users, string(l)+".yaml"))
		return err == nil
	}

	// ---- run 1: -init populates the config directory; an administrator edits the accounts
	p1, e := c15Start(bin, cfg, true)
	if p1 == nil {
		c.Note("error", e)
		inconclusive(c, "server-start", "the server binary did not start on a fresh config directory with -init")
		return
	}
	stopped := false
	defer func() {
		if !stopped {
			p1.stop()
		}
	}()
	adm, err := p1.dial(nextSrc())
	if err != nil {
		c.Note("error", err.Error())
		inconclusive(c, "server-dial", "cannot connect to the started server")
		return
	}
	defer adm.conn.Close()
	if ok, err := adm.login([]byte("admin"), obf([]byte("admin"))); err != nil || !ok {
		inconclusive(c, "server-login", "the default administrator cannot log in on a freshly initialised server")
		return
	}
	// the model starts from what -init put there
	var toks []string
	logins := map[string][][]byte{}
	addPw := func(l string, pw []byte) {
		if logins[l] == nil {
			logins[l] = [][]byte{{}}
		}
		for _, x := range logins[l] {
			if string(x) == string(pw) {
				return
			}
		}
		logins[l] = append(logins[l], pw)
	}
	var all hotline.AccessBitmap
	for _, l := range []string{"admin", "guest"} {
		b, err := os.ReadFile(filepath.Join(users, l+".yaml"))
		var a hotline.Account
		if err != nil || yaml.Unmarshal(b, &a) != nil {
			c.Disagree("server-init", "default account "+l+" missing after -init")
			return
		}
		pw := []byte{}
		if l == "admin" {
			pw = obf([]byte("admin"))
			all = a.Access
		}
		toks = append(toks, "A "+hx([]byte(a.Login))+" "+hx([]byte(a.Name))+" "+hx(pw)+" "+hx(a.Access[:]))
		addPw(l, pw)
	}
	var impl []string
	obs := func(tok, o string) { toks = append(toks, tok); impl = append(impl, o) }
	id := uint32(10)
	cur := adm
	send := func(ty hotline.TranType, fields ...hotline.Field) string {
		id++
		rep, err := cur.request(mkTran(ty, id, fields...))
		if err != nil {
			return "lost"
		}
		if rep.ErrorCode != [4]byte{} {
			return "err"
		}
		return "done"
	}
	lost := func(o string) bool {
		if o == "lost" {
			inconclusive(c, "server-no-reply", "no reply from the server binary to an account request that must be answered")
		}
		return o == "lost"
	}
	// a second administrator first (admin and guest themselves may be deleted or renamed away); it makes the edits
	opLogin := []byte(fmt.Sprintf("op%d", r.Intn(1000)))
	opPw := []byte{0x11, 0x22, byte(1 + r.Intn(250))}
	fs := []c15Field{{105, obf(opLogin)}, {102, []byte("second administrator")}, {106, opPw}, {110, all[:]}}
	o := send(hotline.TranNewUser, c15Fields(fs)...)
	if lost(o) {
		return
	}
	obs("N "+c15Tok(fs), o)
	addPw(string(opLogin), opPw)
	op, err := p1.dial(nextSrc())
	if err != nil {
		inconclusive(c, "server-dial", "cannot connect to the started server")
		return
	}
	defer op.conn.Close()
	if ok, err := op.login(opLogin, opPw); err != nil || !ok {
		c.Note("history", strings.Join(toks, " "))
		c.Violation("new-user-cannot-login", "an administrator account created through the protocol cannot log in")
		return
	}
	cur = op
	pool := [][]byte{[]byte("guest"), []byte("admin"), []byte("guest"), []byte("x" + r.Name(6)), []byte("y" + r.Name(6))}
	nOps := 1 + r.Intn(4)
	var kinds []string
	for i := 0; i < nOps; i++ {
		l := pool[r.Intn(len(pool))]
		k := r.Intn(5)
		if i == 0 { // the first edit always removes or renames away one of the accounts a fresh config directory starts with
			l = pool[r.Intn(2)]
			k = r.Pick(0, 2, 4)
		}
		if !exists(l) {
			k = 3 // requests on an absent login that the server leaves unanswered are not sent: create it instead
		}
		switch k {
		case 0, 1: // delete-user
			fs := []c15Field{{105, obf(l)}}
			o := send(hotline.TranDeleteUser, c15Fields(fs)...)
			if lost(o) {
				return
			}
			obs("D "+c15Tok(fs), o)
			addPw(string(l), []byte{})
			kinds = append(kinds, "delete:"+string(l))
		case 2: // rename through update-user
			nl := []byte("r" + r.Name(6))
			if exists(nl) {
				continue
			}
			fs := []c15Field{{101, obf(l)}, {105, obf(nl)}, {102, []byte("renamed")}, {106, []byte{0}}}
			for _, pw := range append([][]byte{}, logins[string(l)]...) {
				addPw(string(nl), pw)
			}
			addPw(string(nl), []byte{})
			o := send(hotline.TranUpdateUser, hotline.NewField(hotline.FieldData, c15SubRecord(fs)))
			if lost(o) {
				return
			}
			obs("U 1 "+c15Tok(fs), o)
			pool = append(pool, nl)
			kinds = append(kinds, "rename:"+string(l))
		case 3: // new-user
			pw := []byte{byte(1 + r.Intn(250)), 7}
			fs := []c15Field{{105, obf(l)}, {102, []byte("created")}, {106, pw}, {110, make([]byte, 8)}}
			o := send(hotline.TranNewUser, c15Fields(fs)...)
			if lost(o) {
				return
			}
			obs("N "+c15Tok(fs), o)
			addPw(string(l), pw)
			kinds = append(kinds, "create:"+string(l))
		default: // delete through update-user
			fs := []c15Field{{101, obf(l)}}
			o := send(hotline.TranUpdateUser, hotline.NewField(hotline.FieldData, c15SubRecord(fs)))
			if lost(o) {
				return
			}
			obs("U 1 "+c15Tok(fs), o)
			addPw(string(l), []byte{})
			kinds = append(kinds, "delete:"+string(l))
		}
	}
	c.Note("operations", kinds)
	// the views at the end of run 1
	id++
	list1, err := op.listUsers(id)
	if err != nil {
		inconclusive(c, "server-list", "list-users could not be obtained before the restart")
		return
	}
	obs("L", "users "+fmt.Sprint(len(list1))+joinSp(list1))
	adm.conn.Close()
	op.conn.Close()
	p1.stop()
	stopped = true
	disk1, err := c15DirAccounts(users)
	if err != nil {
		c.Note("error", err.Error())
		c.Violation("accounts-dir-unloadable", "the Users directory written by the server cannot be parsed")
		return
	}
	// ---- run 2: the same directory, with -init (the README's docker line passes it on every start) or without
	withInit := r.Chance(70)
	c.Note("restart_with_init", withInit)
	c.Dist(map[bool]string{true: "binary-restart/with-init", false: "binary-restart/without-init"}[withInit])
	os.Remove(cfg + ".log")
	p2, e := c15Start(bin, cfg, withInit)
	if p2 == nil {
		c.Note("error", e)
		c.Note("history", strings.Join(toks, " "))
		c.Violation("restart-fails", "the server binary does not start again on the directory it wrote")
		return
	}
	defer p2.stop()
	obs("R", "done")
	disk2, err := c15DirAccounts(users)
	if err != nil {
		c.Note("error", err.Error())
		c.Violation("accounts-dir-unloadable", "after the restart the Users directory cannot be parsed")
		return
	}
	fail := func(key, what string) {
		c.Note("files_before_restart", clip(c15MapCanon(disk1)))
		c.Note("files_after_restart", clip(c15MapCanon(disk2)))
		c.Note("history", strings.Join(toks, " "))
		c.Violation(key, what)
	}
	for f := range disk2 {
		if _, ok := disk1[f]; !ok {
			fail("restart-brings-back-account", fmt.Sprintf("starting the server again (init flag: %v) created account file %q, which did not exist when the server stopped", withInit, f))
		}
	}
	for f, v := range disk1 {
		if v2, ok := disk2[f]; !ok {
			fail("restart-loses-account", fmt.Sprintf("starting the server again removed account file %q", f))
		} else if v2 != v {
			fail("restart-changes-account", fmt.Sprintf("starting the server again changed account file %q", f))
		}
	}
	// logins after the restart: every login ever named, with every password ever used with it
	present := map[string]string{} // login -> stored hash (from the files before the restart)
	for _, v := range disk1 {
		f := strings.SplitN(v, ":", 4)
		present[string(unhx(f[0]))] = f[3]
	}
	var names []string
	for l := range logins {
		names = append(names, l)
	}
	sort.Strings(names)
	var opConn *c15Conn
	for _, l := range names {
		for _, pw := range logins[l] {
			cn, err := p2.dial(nextSrc())
			if err != nil {
				c.Note("error", err.Error())
				inconclusive(c, "server-dial", "cannot connect to the restarted server")
				return
			}
			ok, err := cn.login([]byte(l), pw)
			if err != nil {
				cn.conn.Close()
				inconclusive(c, "server-login", "no answer to a login attempt")
				return
			}
			obs("I "+hx([]byte(l))+" "+hx(pw), map[bool]string{true: "auth 1", false: "auth 0"}[ok])
			hash, was := present[l]
			want := was && bcrypt.CompareHashAndPassword([]byte(hash), pw) == nil
			if ok != want {
				c.Note("login", l)
				c.Note("password_as_sent", hx(pw))
				if ok && !was {
					fail("restart-brings-back-account", fmt.Sprintf("login %q did not exist when the server stopped but authenticates after the restart (init flag: %v)", l, withInit))
				} else {
					fail("restart-login-differs", fmt.Sprintf("after the restart a login as %q is %s, the account file from before the restart says otherwise", l, map[bool]string{true: "accepted", false: "refused"}[ok]))
				}
			}
			if ok && l == string(opLogin) && opConn == nil {
				opConn = cn
				continue
			}
			cn.conn.Close()
		}
	}
	if opConn != nil {
		defer opConn.conn.Close()
		list2, err := opConn.listUsers(77)
		if err != nil {
			inconclusive(c, "server-list", "list-users could not be obtained after the restart")
			return
		}
		obs("L", "users "+fmt.Sprint(len(list2))+joinSp(list2))
		if strings.Join(list1, " ") != strings.Join(list2, " ") {
			c.Note("listed_before", list1)
			c.Note("listed_after", list2)
			fail("restart-list-differs", "the accounts shown to an administrator after the restart differ from those shown before it")
		}
	}
	// the model's view of the same history
	ans := c.O.Ask("c15run 255 " + strings.Join(toks, " "))
	parts := strings.Split(ans, " | ")
	if len(parts) != len(impl) {
		c.Note("oracle", clip(ans))
		c.Disagree("c15-oracle-shape", fmt.Sprintf("oracle returned %d observations for %d", len(parts), len(impl)))
		return
	}
	for i := range parts {
		m := parts[i]
		if strings.HasPrefix(m, "users ") {
			f := strings.Fields(m)
			recs := f[2:]
			sort.Strings(recs)
			m = f[0] + " " + f[1] + joinSp(recs)
		}
		if m != impl[i] {
			c.Note("observation_index", i)
			c.Note("history", strings.Join(toks, " "))
		}
		if !c.Corr("binary-restart-model", impl[i], m, false) {
			return
		}
	}
	c.Dist(fmt.Sprintf("binary-restart/ops-%d", len(kinds)))
	c.Nontrivial(strings.Join(toks, " ") + fmt.Sprint(withInit))
}

func joinSp(l []string) string {
	s := ""
	for _, x := range l {
		s += " " + x
	}
	return s
}

func tmpDirC15(prefix string) string {
	d, err := os.MkdirTemp("/var/tmp", "mobius-verif-"+prefix+"-")
	if err != nil {
		panic(err)
	}
	return d
}

var _ = bytes.Equal

// inconclusive: the environment (process start, TCP, a reply that did not arrive within a minute on a loaded machine)
// did not let the case reach its judgement.  Counted in the evidence, never reported: slowness is not a violation.
func inconclusive(c *Case, key, what string) {
	c.Dist("binary-restart/inconclusive/" + key)
	c.Note("inconclusive", what)
}
