//go:build c01

package main

import (
	"bytes"
	"encoding/binary"
	"fmt"
	"io"
	"strings"
	"time"

	"github.com/jhalter/mobius/hotline"
	"golang.org/x/crypto/bcrypt"
)

func goPathDecode(p []byte) string {
	return guard(func() string {
		var fp hotline.FilePath
		if _, err := fp.Write(exact(p)); err != nil {
			return "err"
		}
		var items [][]byte
		for _, it := range fp.Items {
			items = append(items, it.Name)
		}
		return bytesListCanon(items)
	})
}

func goNewsPathDecode(p []byte) string {
	return guard(func() string {
		f := hotline.Field{Data: exact(p)}
		ps, err := f.DecodeNewsPath()
		if err != nil {
			return "err"
		}
		var items [][]byte
		for _, s := range ps {
			items = append(items, []byte(s))
		}
		return bytesListCanon(items)
	})
}

func infoArgs(i *hotline.FlatFileInformationFork) string {
	return strings.Join([]string{hx(i.Platform[:]), hx(i.TypeSignature[:]), hx(i.CreatorSignature[:]), hx(i.Flags[:]),
		hx(i.PlatformFlags[:]), hx(i.RSVD[:]), hx(i.CreateDate[:]), hx(i.ModifyDate[:]), hx(i.NameScript[:]), hx(i.Name), hx(i.Comment)}, " ")
}

func genInfoFork(r *RNG) hotline.FlatFileInformationFork {
	var mt [8]byte
	copy(mt[:], r.Bytes(8))
	nameLen := sizeBias(r, 255)
	if r.Chance(5) {
		nameLen = r.Pick(256, 1000, 65535)
	}
	i := hotline.NewFlatFileInformationFork(string(r.Text(nameLen)), mt, string(r.Bytes(4)), string(r.Bytes(4)))
	if r.Chance(60) {
		_ = i.SetComment(r.Text(sizeBias(r, 300)))
	}
	if r.Chance(30) {
		copy(i.Flags[:], r.Bytes(4))
		copy(i.NameScript[:], r.Bytes(2))
		copy(i.RSVD[:], r.Bytes(32))
		copy(i.CreateDate[:], r.Bytes(8))
	}
	return i
}

func goInfoDecode(p []byte, unmarshal bool) string {
	return guard(func() string {
		var i hotline.FlatFileInformationFork
		if unmarshal {
			if err := i.UnmarshalBinary(exact(p)); err != nil {
				return "err"
			}
		} else if _, err := i.Write(exact(p)); err != nil {
			return "err"
		}
		return "ok " + infoArgs(&i)
	})
}

func registerC01Objects(x *Ctx) {
	x.Add(&Family{Name: "user", Quick: 2000, Thor: 60000, Run: func(c *Case) {
		r := c.R
		name := r.Text(sizeBias(r, 600))
		u := hotline.User{Icon: r.Bytes(2), Flags: r.Bytes(2), Name: string(name)}
		copy(u.ID[:], r.Bytes(2))
		ref := c.AskS("user", fmt.Sprint(binary.BigEndian.Uint16(u.ID[:])), fmt.Sprint(binary.BigEndian.Uint16(u.Icon)),
			fmt.Sprint(binary.BigEndian.Uint16(u.Flags)), hx(name))
		checkEncoder(c, "User", func() io.Reader { uu := u; return &uu }, ref)
		if len(name) > 0 {
			c.Nontrivial(ref)
		}
		in := unhx(ref)
		if r.Chance(50) {
			in = mutate(r, in)
		}
		got := guard(func() string {
			var v hotline.User
			n, err := v.Write(exact(in))
			if err != nil {
				return "err"
			}
			return fmt.Sprintf("ok %d %d %d %s %d", binary.BigEndian.Uint16(v.ID[:]), binary.BigEndian.Uint16(v.Icon), binary.BigEndian.Uint16(v.Flags), hx([]byte(v.Name)), n)
		})
		c.Corr("User.Write", got, c.O.Ask("userdec "+hx(in)), false)
	}})
	x.Add(&Family{Name: "account-record", Quick: 150, Thor: 3000, Run: func(c *Case) {
		r := c.R
		pw := ""
		if r.Bool() {
			pw = string(r.Text(1 + r.Intn(20)))
		}
		var acc hotline.AccessBitmap
		copy(acc[:], r.Bytes(8))
		a := hotline.NewAccount(string(r.Text(sizeBias(r, 200))), string(r.Text(sizeBias(r, 200))), pw, acc)
		// "has a password" is bcrypt's verdict (a model parameter): bcrypt keys are NUL-terminated and cycled,
		// so a password made of NUL bytes only is the empty password
		hp := "0"
		if bcrypt.CompareHashAndPassword([]byte(a.Password), []byte("")) != nil {
			hp = "1"
		}
		ref := c.AskS("acct", hx([]byte(a.Name)), hx([]byte(a.Login)), hx(acc[:]), hp)
		want := unhx(ref)
		for _, sc := range [][]int{{len(want) + 1}, {512}, {16, 33}, {len(want)/2 + 1}} {
			aa := *a
			got, st := drainScripted(&aa, sc, len(want))
			c.Dist("Account/" + st)
			if st != "eof" {
				c.Note("script", sc)
				c.Violation("encoder-"+st+"-Account", "Account record: draining does not terminate with EOF")
				return
			}
			if !c.Corr("layout-Account", hx(got), ref, true) {
				return
			}
		}
		c.Nontrivial(ref)
	}})
	x.Add(&Family{Name: "file-name-with-info", Quick: 2000, Thor: 60000, Run: func(c *Case) {
		r := c.R
		var f hotline.FileNameWithInfo
		copy(f.Type[:], r.Bytes(4))
		copy(f.Creator[:], r.Bytes(4))
		copy(f.FileSize[:], r.Bytes(4))
		if r.Chance(20) {
			copy(f.RSVD[:], r.Bytes(4))
			copy(f.NameScript[:], r.Bytes(2))
		}
		f.Name = r.Text(sizeBias(r, 600))
		binary.BigEndian.PutUint16(f.NameSize[:], uint16(len(f.Name)))
		ref := c.AskS("fnwi", hx(f.Type[:]), hx(f.Creator[:]), fmt.Sprint(binary.BigEndian.Uint32(f.FileSize[:])), hx(f.RSVD[:]),
			fmt.Sprint(binary.BigEndian.Uint16(f.NameScript[:])), hx(f.Name))
		checkEncoder(c, "FileNameWithInfo", func() io.Reader { ff := f; return &ff }, ref)
		if len(f.Name) > 0 {
			c.Nontrivial(ref)
		}
		in := unhx(ref)
		if r.Chance(50) {
			in = mutate(r, in)
		}
		got := guard(func() string {
			var g hotline.FileNameWithInfo
			if _, err := g.Write(exact(in)); err != nil {
				return "err"
			}
			return fmt.Sprintf("ok %s %s %d %s %d %s", hx(g.Type[:]), hx(g.Creator[:]), binary.BigEndian.Uint32(g.FileSize[:]), hx(g.RSVD[:]),
				binary.BigEndian.Uint16(g.NameScript[:]), hx(g.Name))
		})
		c.Corr("FileNameWithInfo.Write", got, c.O.Ask("fnwidec "+hx(in)), false)
	}})
	x.Add(&Family{Name: "info-fork", Quick: 2000, Thor: 60000, Run: func(c *Case) {
		r := c.R
		i := genInfoFork(r)
		ref := c.O.Ask("info " + infoArgs(&i))
		checkEncoder(c, "FlatFileInformationFork", func() io.Reader { ii := i; return &ii }, ref)
		if len(i.Name)+len(i.Comment) > 0 {
			c.Nontrivial(ref)
		}
		enc := unhx(ref)
		// the fork's own size field (as the flattened header announces it) equals the emitted length
		if int(binary.BigEndian.Uint32(i.DataSize())) != len(enc) && len(enc) < 1<<32 {
			c.Violation("info-fork-size", "information fork size field differs from the emitted fork length")
		}
		in := enc
		if r.Chance(50) {
			in = mutate(r, enc)
		}
		if r.Chance(10) && len(i.Comment) == 0 && len(enc) >= 2 {
			in = enc[:len(enc)-2] // Nostalgia client: comment size omitted
		}
		want := c.O.Ask("infodec " + hx(in))
		c.Corr("FlatFileInformationFork.Write", goInfoDecode(in, false), want, false)
		c.Corr("FlatFileInformationFork.UnmarshalBinary", goInfoDecode(in, true), want, false)
	}})
	x.Add(&Family{Name: "flattened-file-header", Quick: 1500, Thor: 40000, Run: func(c *Case) {
		r := c.R
		var ffo hotline.VerifFlattenedFileObject
		ffo.FlatFileHeader = hotline.FlatFileHeader{Format: [4]byte{0x46, 0x49, 0x4c, 0x50}, Version: [2]byte{0, 1}, ForkCount: [2]byte{0, byte(r.Pick(2, 3))}}
		ffo.FlatFileInformationFork = genInfoFork(r)
		ds := int(r.U64() & 0xffffffff)
		if r.Bool() {
			ds = r.Intn(100000)
		}
		ffo.FlatFileDataForkHeader = hotline.FlatFileForkHeader{ForkType: [4]byte{0x44, 0x41, 0x54, 0x41}}
		binary.BigEndian.PutUint32(ffo.FlatFileDataForkHeader.DataSize[:], uint32(ds))
		ref := c.O.Ask(fmt.Sprintf("ffo %d %s %d", ffo.FlatFileHeader.ForkCount[1], infoArgs(&ffo.FlatFileInformationFork), ds))
		checkEncoder(c, "flattenedFileObject", func() io.Reader { ff := ffo; return &ff }, ref)
		c.Nontrivial(ref)
		enc := unhx(ref)
		if len(enc) >= 44 {
			infoLen := int(binary.BigEndian.Uint32(enc[36:40]))
			if 40+infoLen+16 != len(enc) {
				c.Violation("ffo-info-size", "INFO fork size in the flattened header differs from the fork bytes that follow")
			}
		}
	}})
	x.Add(&Family{Name: "resume-data", Quick: 2000, Thor: 40000, Run: func(c *Case) {
		r := c.R
		n := r.Pick(1, 1, 2, 3, 0)
		var list []hotline.ForkInfoList
		args := ""
		for i := 0; i < n; i++ {
			off := r.Bytes(4)
			fil := *hotline.NewForkInfoList(off)
			if i == 1 {
				fil.Fork = [4]byte{0x4D, 0x41, 0x43, 0x52}
			}
			list = append(list, fil)
			args += fmt.Sprintf(" %s %d", hx(fil.Fork[:]), binary.BigEndian.Uint32(off))
		}
		frd := hotline.NewFileResumeData(list)
		b, _ := frd.BinaryMarshal()
		ref := c.O.Ask("resume" + args)
		c.Corr("layout-FileResumeData", hx(b), ref, true)
		c.Nontrivial(ref)
		in := b
		if r.Chance(50) {
			in = mutate(r, b)
		}
		got := guard(func() string {
			var d hotline.FileResumeData
			if err := d.UnmarshalBinary(exact(in)); err != nil {
				return "err"
			}
			s := fmt.Sprintf("ok %d", len(d.ForkInfoList))
			for _, f := range d.ForkInfoList {
				s += fmt.Sprintf(" %s %d", hx(f.Fork[:]), binary.BigEndian.Uint32(f.DataSize[:]))
			}
			return s
		})
		c.Corr("FileResumeData.UnmarshalBinary", got, c.O.Ask("resumedec "+hx(in)), false)
	}})
	x.Add(&Family{Name: "file-path", Quick: 4000, Thor: 150000, Run: func(c *Case) {
		r := c.R
		n := r.Pick(0, 1, 2, 3, 5)
		var items [][]byte
		var segs []string
		for i := 0; i < n; i++ {
			l := r.Pick(0, 1, 5, 12, 31, 32, 252, 253, 254, 255, r.Intn(256))
			it := r.Text(l)
			for j := range it {
				if it[j] == '/' {
					it[j] = '_'
				}
			}
			items = append(items, it)
			segs = append(segs, string(it))
		}
		// EncodeFilePath (used for folder-download item headers) vs reference layout
		if n > 0 {
			p := strings.Join(segs, "/")
			ref := c.AskS("pathenc", hx([]byte(p)))
			c.Corr("layout-EncodeFilePath", hx(hotline.EncodeFilePath(p)), ref, true)
			isDir := r.Bool()
			d := "0"
			if isDir {
				d = "1"
			}
			fh := hotline.NewFileHeader(p, isDir)
			ref2 := c.AskS("fhdr", hx([]byte(p)), d)
			checkEncoder(c, "FileHeader", func() io.Reader { f := fh; return &f }, ref2)
			enc := unhx(ref2)
			if len(enc) >= 2 && int(binary.BigEndian.Uint16(enc[:2])) != len(enc)-2 && len(enc) < 65538 {
				c.Violation("file-header-size", "folder item header size differs from the bytes that follow")
			}
			c.Nontrivial(ref)
		}
		// decoder on the wire form clients send (and mutations)
		var w bytes.Buffer
		w.Write(be16(len(items)))
		for _, it := range items {
			w.Write([]byte{0, 0, byte(len(it))})
			w.Write(it)
		}
		in := w.Bytes()
		if r.Chance(50) {
			in = mutate(r, in)
		}
		if len(in) > 4000 {
			in = in[:4000]
		}
		got := goPathDecode(in)
		want := c.O.Ask("pathdec " + hx(in))
		c.Note("path_bytes", short(in))
		c.Dist("pathdec/" + strings.SplitN(got, " ", 2)[0])
		c.Corr("FilePath.Write", got, want, false)
		// round trip: what EncodeFilePath-style bytes say is what the decoder returns
		if string(in) == w.String() {
			if got != bytesListCanon(items) {
				c.Note("decoded", clip(got))
				c.Violation("file-path-roundtrip", "decoding an encoded file path does not yield the original items")
			}
		}
		// news path decoder shares the layout
		c.Corr("DecodeNewsPath", goNewsPathDecode(in), c.O.Ask("newspathdec "+hx(in)), false)
	}})
	x.Add(&Family{Name: "news-records", Quick: 1500, Thor: 40000, Run: func(c *Case) {
		r := c.R
		cat := hotline.NewsCategoryListData15{Type: hotline.NewsCategory, Name: string(r.Text(sizeBias(r, 255))), Articles: map[uint32]*hotline.NewsArtData{}, SubCats: map[string]hotline.NewsCategoryListData15{}}
		if r.Bool() {
			cat.Type = hotline.NewsBundle
		}
		n := r.Pick(0, 1, 2, 3, 6)
		type ent struct {
			id                 uint32
			date               []byte
			parent             uint32
			title, poster, dat []byte
		}
		var ents []ent
		for i := 0; i < n; i++ {
			e := ent{id: uint32(i*3 + 1 + r.Intn(3)), date: r.Bytes(8), parent: uint32(r.Intn(5)),
				title: r.Text(r.Pick(0, 1, 20, 200, 254, 255)), poster: r.Text(r.Pick(0, 1, 13, 31, 255)), dat: r.Text(r.Pick(0, 10, 300, 65535))}
			ents = append(ents, e)
			a := &hotline.NewsArtData{Title: string(e.title), Poster: string(e.poster), Data: string(e.dat)}
			copy(a.Date[:], e.date)
			binary.BigEndian.PutUint32(a.ParentArt[:], e.parent)
			cat.Articles[e.id] = a
		}
		if cat.Type == hotline.NewsBundle {
			for i := 0; i < r.Intn(3); i++ {
				cat.SubCats[fmt.Sprint("s", i)] = hotline.NewsCategoryListData15{}
			}
		}
		// category list record
		isCat := "0"
		if cat.Type == hotline.NewsCategory {
			isCat = "1"
		}
		ref := c.AskS("newscat", isCat, fmt.Sprint(len(cat.Articles)+len(cat.SubCats)), hx([]byte(cat.Name)))
		checkEncoder(c, "NewsCategoryListData15", func() io.Reader { cc := cat; return &cc }, ref)
		// article list
		var entBytes []byte
		okEntries := true
		for _, e := range ents {
			er := c.AskS("artentry", fmt.Sprint(e.id), hx(e.date), fmt.Sprint(e.parent), hx(e.title), hx(e.poster), fmt.Sprint(len(e.dat)))
			entBytes = append(entBytes, unhx(er)...)
		}
		nald := guard(func() string {
			d := cat.GetNewsArtListData()
			b, err := io.ReadAll(&d)
			if err != nil {
				return "err"
			}
			return hx(b)
		})
		ref2 := c.AskS("artlist", "0", fmt.Sprint(len(ents)), "-", "-", hx(entBytes))
		c.Note("articles", len(ents))
		if c.Corr("layout-NewsArtListData", nald, ref2, true) && okEntries && len(ents) > 0 {
			c.Nontrivial(ref2)
			// the emitted list must be parseable back into the same entries (client-side reference parser)
			p := c.AskS("artparse", fmt.Sprint(len(ents)), hx(unhx(nald)[10:]))
			if !strings.HasPrefix(p, fmt.Sprintf("ok %d", len(ents))) {
				c.Note("parse", clip(p))
				c.Violation("news-list-unparseable", "the article list the server emits cannot be parsed back")
			}
		}
		// drained with scripts too
		d := cat.GetNewsArtListData()
		checkEncoder(c, "NewsArtListData", func() io.Reader { dd := d; return &dd }, ref2)
		// a single NewsArtList record drained by scripts
		if len(ents) > 0 {
			e := ents[0]
			nal := hotline.NewsArtList{Title: e.title, Poster: e.poster}
			binary.BigEndian.PutUint32(nal.ID[:], e.id)
			copy(nal.TimeStamp[:], e.date)
			binary.BigEndian.PutUint32(nal.ParentID[:], e.parent)
			binary.BigEndian.PutUint16(nal.ArticleSize[:], uint16(len(e.dat)))
			er := c.AskS("artentry", fmt.Sprint(e.id), hx(e.date), fmt.Sprint(e.parent), hx(e.title), hx(e.poster), fmt.Sprint(len(e.dat)))
			checkEncoder(c, "NewsArtList", func() io.Reader { x := nal; return &x }, er)
		}
	}})
	x.Add(&Family{Name: "tracker-time-int-handshake", Quick: 2000, Thor: 40000, Run: func(c *Case) {
		r := c.R
		tr := hotline.TrackerRegistration{UserCount: r.Intn(70000), Name: string(r.Text(sizeBias(r, 255))), Description: string(r.Text(sizeBias(r, 255))), Password: string(r.Text(r.Intn(20)))}
		copy(tr.Port[:], r.Bytes(2))
		copy(tr.PassID[:], r.Bytes(4))
		ref := c.AskS("tracker", fmt.Sprint(binary.BigEndian.Uint16(tr.Port[:])), fmt.Sprint(tr.UserCount), hx(tr.PassID[:]), hx([]byte(tr.Name)), hx([]byte(tr.Description)), hx([]byte(tr.Password)))
		checkEncoder(c, "TrackerRegistration", func() io.Reader { t := tr; return &t }, ref)
		c.Nontrivial(ref)
		// DecodeInt
		d := r.Bytes(r.Pick(0, 1, 2, 2, 3, 4, 4, 5, 8))
		got := guard(func() string {
			f := hotline.Field{Data: d}
			n, err := f.DecodeInt()
			if err != nil {
				return "err"
			}
			return fmt.Sprintf("ok %d", n)
		})
		c.Corr("DecodeInt", got, c.O.Ask("decodeint "+hx(d)), false)
		// Time
		year := 1990 + r.Intn(60)
		secs := r.Intn(366 * 86400)
		tm := time.Date(year, time.January, 1, 0, 0, 0, 0, time.Local).Add(time.Duration(secs) * time.Second)
		if tm.Year() == year {
			// seconds into the year is measured by wall-clock subtraction; DST shifts are part of Go's result
			soy := int(tm.Sub(time.Date(tm.Year(), time.January, 1, 0, 0, 0, 0, time.Local)).Seconds())
			ht := hotline.NewTime(tm)
			c.Corr("layout-Time", hx(ht[:]), c.AskS("time", fmt.Sprint(year), fmt.Sprint(soy)), true)
		}
		// handshake + preamble
		hs := unhx(c.AskS("hs", fmt.Sprint(r.Intn(3)), fmt.Sprint(r.Intn(3))))
		in := hs
		if r.Chance(50) {
			in = mutate(r, hs)
		}
		if len(in) == 12 {
			v, err := hotline.VerifHandshakeWrite(in)
			g := fmt.Sprint(v)
			if err != nil {
				g = "err"
			}
			c.Corr("handshake.Valid", g, c.O.Ask("hsvalid "+hx(in)), false)
		}
		pre := unhx(c.AskS("preamble", fmt.Sprint(uint32(r.U64())), fmt.Sprint(uint32(r.U64()))))
		in = pre
		if r.Chance(50) {
			in = mutate(r, pre)
		}
		got = guard(func() string {
			ref, size, err := hotline.VerifTransferWrite(exact(in))
			if err != nil {
				return "err"
			}
			return fmt.Sprintf("ok %d %d", binary.BigEndian.Uint32(ref[:]), binary.BigEndian.Uint32(size[:]))
		})
		c.Corr("transfer.Write", got, c.O.Ask("preambledec "+hx(in)), false)
	}})
}
