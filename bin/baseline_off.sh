#!/bin/bash
# Runs the repository's pinned test suite with the verif guard OFF, on a scratch copy of /repo
# (the suite rewrites tracked fixtures when run in place), and removes the copy afterwards.
# Usage: bin/baseline_off.sh [-json]
set -u
export GOFLAGS=-mod=mod GOPROXY=off GOSUMDB=off GOTOOLCHAIN=local
T=$(mktemp -d /var/tmp/mobius-baseline.XXXXXX)
trap 'rm -rf "$T"' EXIT
rsync -a --exclude .git /repo/ "$T/repo/"
cd "$T/repo"
if [ "${1:-}" = "-json" ]; then
  go test -json -vet=off -count=1 -timeout 25m ./...
else
  go test -vet=off -count=1 -timeout 25m ./... 2>&1 | tail -20
fi
exit ${PIPESTATUS[0]}
